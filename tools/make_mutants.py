#!/usr/bin/env python3
"""Generate the sensitivity catalogue /verif/mutants/*.patch from (file, old, new) triples.

Each mutant is a small, compiling change of /repo/src that breaks one claimed property.
The patches are generated against the current /repo working tree (run again after a fix commit).
"""
import difflib
import json
import sys
from pathlib import Path

REPO = Path("/repo")
OUT = Path("/verif/mutants")

M = []


def mutant(name, prop, checks, file, old, new, note, count=1):
    M.append(dict(name=name, prop=prop, checks=checks, file=file, old=old, new=new, note=note, count=count))


# ---- C13 ----------------------------------------------------------------------------------
mutant("c13_result_by_arrival", "C13", ["C13"], "src/gemseo/core/parallel_execution/callable_parallel_execution.py",
       "                ordered_outputs[index] = output\n", "                ordered_outputs[n_outputs] = output\n",
       "results placed by arrival count instead of task index: only visible when completion order differs from submission order")
mutant("c13_callback_wrong_index", "C13", ["C13"], "src/gemseo/core/parallel_execution/callable_parallel_execution.py",
       "                    callback(index, output)\n", "                    callback(n_outputs, output)\n",
       "callbacks receive the arrival rank instead of the task index")
mutant("c13_doe_no_preseed", "C13", ["C13"], "src/gemseo/algos/doe/base_doe_library.py",
       "                for sample in self.samples:\n                    database.store(sample, {})\n", "                pass\n",
       "parallel DOE no longer pre-seeds the database order: entries appear in completion order")
mutant("c13_cache_outputs_unlocked", "C13", ["C13"], "src/gemseo/caches/base_full_cache.py",
       "    @synchronized\n    def cache_outputs(", "    def cache_outputs(",
       "lock decorator removed from BaseFullCache.cache_outputs: lost/mixed entries only under line-level pre-emption between two workers")
mutant("c13_disc_zip_misaligned", "C13", ["C13"], "src/gemseo/core/parallel_execution/disc_parallel_execution.py",
       "            for disc, output in zip(self._disciplines, ordered_outputs):\n", "            for disc, output in zip(self._disciplines, [o for o in ordered_outputs if o is not None]):\n",
       "after a failed task the outputs are attributed to the wrong disciplines")
# ---- C12 ----------------------------------------------------------------------------------
mutant("c12_pending_cleared_never", "C12", ["C12", "C11"], "src/gemseo/algos/_hdf_database.py",
       "        self.__pending_arrays.clear()\n\n    @staticmethod", "        pass\n\n    @staticmethod",
       "pending points never cleared: harmless? (re-appended) - expected MISSED or caught by C11 (documented either way)")
mutant("c12_append_dispatch", "C12", ["C12", "C11"], "src/gemseo/algos/_hdf_database.py",
       "                    if str(index_dataset) in design_vars_grp:\n", "                    if str(index_dataset + 1) in design_vars_grp:\n",
       "append dispatch looks at the wrong index: new outputs of an already exported point are not appended")
mutant("c12_counter_not_restored", "C12", ["C12"], "src/gemseo/algos/problem_function.py",
       "            if (\n                not database.get(hashed_xu)\n                and self._evaluation_counter.maximum_is_reached\n            ):\n                raise MaxIterReachedException\n\n            output_value = self._compute_output(input_value)",
       "            if self._evaluation_counter.maximum_is_reached:\n                raise MaxIterReachedException\n\n            output_value = self._compute_output(input_value)",
       "budget test no longer spares points that already have an entry (unnormalised path): a restarted run cannot complete a partially stored point", count=1)
mutant("c12_backup_on_wrong_event", "C12", ["C12"], "src/gemseo/scenarios/base_scenario.py",
       "            at_each_iteration=at_each_iteration,\n            at_each_function_call=at_each_function_call,\n        )\n\n        if plot:",
       "            at_each_iteration=at_each_function_call,\n            at_each_function_call=at_each_iteration,\n        )\n\n        if plot:",
       "backup listener attached to the wrong event (iteration <-> function call swapped)")
mutant("c12_loaded_keys_dtype", "C12", ["C12"], "src/gemseo/algos/_hdf_database.py",
       "                database.store(array(design_vars_grp[str_index]), scalar_dict)\n", "                database.store(array(design_vars_grp[str_index], dtype=\"float32\"), scalar_dict)\n",
       "loaded keys do not match computed keys (precision lost): every loaded point is re-executed after a restart")
# ---- C03 ----------------------------------------------------------------------------------
mutant("c03_counter_per_store", "C03", ["C03"], "src/gemseo/algos/database.py",
       "        if self.__new_iter_listeners and outputs and current_outputs_is_empty:\n", "        if self.__new_iter_listeners and outputs:\n",
       "new-iteration listeners notified at every store: the budget is consumed per function, not per point")
mutant("c03_time_test_inverted", "C03", ["C03"], "src/gemseo/algos/base_driver_library.py",
       "        if 0 < self.__max_time < time() - self.__start_time:\n", "        if 0 < self.__max_time and self.__max_time > time() - self.__start_time:\n",
       "time limit test inverted")
mutant("c03_maxiter_after_eval", "C03", ["C03", "C01"], "src/gemseo/algos/problem_function.py",
       "            if (\n                not database.get(hashed_xu)\n                and self._evaluation_counter.maximum_is_reached\n            ):\n                raise MaxIterReachedException\n\n            output_value = self._compute_output(xn_vect)\n",
       "            output_value = self._compute_output(xn_vect)\n            if (\n                not database.get(hashed_xu)\n                and self._evaluation_counter.maximum_is_reached\n            ):\n                raise MaxIterReachedException\n",
       "budget checked after the evaluation (normalised path): one extra distinct point is evaluated")
mutant("c03_listeners_not_removed", "C03", ["C03"], "src/gemseo/algos/base_driver_library.py",
       "        self.__progress_bar.finalize_iter_observer()\n        self._clear_listeners(problem)\n", "        self.__progress_bar.finalize_iter_observer()\n",
       "iteration listeners not removed after a run: a second execution with a new library instance double counts")
mutant("c03_doe_failed_sample_stops", "C03", ["C03", "C13"], "src/gemseo/algos/doe/base_doe_library.py",
       "                except ValueError:  # noqa: PERF203\n                    LOGGER.exception(", "                except ValueError:  # noqa: PERF203\n                    break\n                    LOGGER.exception(",
       "sequential DOE stops at the first failed sample instead of skipping it")
# ---- C04 ----------------------------------------------------------------------------------
mutant("c04_strict_to_nonstrict", "C04", ["C04"], "src/gemseo/algos/optimization_history.py",
       "            if obj_value < f_opt:\n", "            if obj_value <= f_opt:\n",
       "ties resolved to the last instead of the first point: still a best point (expected MISSED: not a violation of the statement)")
mutant("c04_infeasible_by_objective", "C04", ["C04"], "src/gemseo/algos/optimization_history.py",
       "        best_i = int(argmin(array(viol_criteria)))\n", "        best_i = int(argmin(array([abs(v) for v in viol_criteria][::-1])))\n",
       "least-infeasible index computed on the reversed list")
mutant("c04_ineq_tolerance_ignored", "C04", ["C04"], "src/gemseo/core/mdo_functions/collections/constraints.py",
       "        return np_all(constraint_value <= self.__tolerances.inequality)\n", "        return np_all(constraint_value <= 0.0)\n",
       "inequality tolerance ignored by the feasibility filter")
mutant("c04_sign_not_restored", "C04", ["C04"], "src/gemseo/algos/optimization_result.py",
       "            f_opt = -f_opt\n            objective_name = problem.objective.original_name\n", "            objective_name = problem.objective.original_name\n",
       "sign of the objective not restored for maximisation")
mutant("c04_pareto_later_ties", "C04", ["C04"], "src/gemseo/algos/pareto/utils.py",
       "        after_are_worse = any_ax1_all(obj_values_filtered[i + 1 :] > obj)\n", "        after_are_worse = any_ax1_all(obj_values_filtered[i + 1 :] >= obj)\n",
       "a later point tied in one objective and better in another no longer excludes a point from the front")
# ---- C05 ----------------------------------------------------------------------------------
mutant("c05_simple_cache_shallow", "C05", ["C05"], "src/gemseo/caches/simple_cache.py",
       "        self.__inputs = deepcopy_dict_of_arrays(input_data)\n        self.__outputs = deepcopy_dict_of_arrays(output_data)\n        self.__jacobian = {}\n",
       "        self.__inputs = dict(input_data)\n        self.__outputs = deepcopy_dict_of_arrays(output_data)\n        self.__jacobian = {}\n",
       "SimpleCache keeps references to the caller's input arrays")
mutant("c05_tolerance_one_sided", "C05", ["C05"], "src/gemseo/utils/comparisons.py",
       "            if norm_diff > tolerance * (1.0 + norm_ref):\n", "            if norm_diff > tolerance * (1.0 + norm_ref) and (other_value - value).sum() > 0:\n",
       "tolerance comparison one-sided")
mutant("c05_hash_index_not_reloaded", "C05", ["C05", "C13"], "src/gemseo/caches/hdf5_cache.py",
       "        super().__init__(tolerance, name or hdf_node_path)\n        self._read_hashes()\n", "        super().__init__(tolerance, name or hdf_node_path)\n",
       "hashes not re-read when an HDF5 cache is reopened")
mutant("c05_jacobian_not_invalidated", "C05", ["C05"], "src/gemseo/caches/simple_cache.py",
       "        self.__inputs = deepcopy_dict_of_arrays(input_data)\n        self.__outputs = deepcopy_dict_of_arrays(output_data)\n        self.__jacobian = {}\n",
       "        self.__inputs = deepcopy_dict_of_arrays(input_data)\n        self.__outputs = deepcopy_dict_of_arrays(output_data)\n",
       "Jacobian of the previous input kept when new outputs are cached")
# ---- C11 ----------------------------------------------------------------------------------
mutant("c11_missing_outputs_offset", "C11", ["C11", "C12"], "src/gemseo/algos/_hdf_database.py",
       None, None, "placeholder (generated below if the anchor text exists)")
# ---- C01 ----------------------------------------------------------------------------------
mutant("c01_store_normalized_jac", "C01", ["C01"], "src/gemseo/algos/problem_function.py",
       "                database.store(hashed_xu, {self._gradient_name: jac_u})\n", "                database.store(hashed_xu, {self._gradient_name: jac_n})\n",
       "normalised Jacobian recorded instead of the physical one")
mutant("c01_lookup_after_compute", "C01", ["C01"], "src/gemseo/algos/problem_function.py",
       "        jacobian = database.get_function_value(name, hashed_xu)\n        if jacobian is None:\n", "        jacobian = None\n        if jacobian is None:\n",
       "Jacobian never served from the database (unnormalised path): the user function is called again")
# ---- C20 ----------------------------------------------------------------------------------
mutant("c20_counter_not_carried", "C20", ["C20"], "src/gemseo/core/serializable.py",
       "                self.__dict__[attribute_name].value = attribute_value\n", "                pass\n",
       "synchronized counters restart from zero after unpickling")


EQUIVALENT = {
    "c04_strict_to_nonstrict": "ties resolved to the last instead of the first best point: the reported point is still a best feasible point, the statement is not violated",
    "c12_pending_cleared_never": "points stay pending and are appended again at each export; the append path skips outputs already on file, so the file content is unchanged",
}


def main():
    OUT.mkdir(exist_ok=True)
    for f in OUT.glob("*"):
        f.unlink()
    made = 0
    for m in M:
        if m["old"] is None:
            continue
        path = REPO / m["file"]
        text = path.read_text()
        if text.count(m["old"]) < 1:
            print(f"SKIP {m['name']}: anchor text not found in {m['file']}", file=sys.stderr)
            continue
        new_text = text.replace(m["old"], m["new"], m["count"])
        diff = "".join(difflib.unified_diff(text.splitlines(True), new_text.splitlines(True), "a/" + m["file"], "b/" + m["file"]))
        (OUT / f"{m['name']}.patch").write_text(diff)
        meta = {"property": m["prop"], "checks": m["checks"], "note": m["note"], "file": m["file"]}
        if m["name"] in EQUIVALENT:
            meta["equivalent"] = EQUIVALENT[m["name"]]
        (OUT / f"{m['name']}.json").write_text(json.dumps(meta, indent=1))
        made += 1
    print(f"{made} mutants written to {OUT}")


if __name__ == "__main__":
    main()
