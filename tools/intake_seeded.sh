#!/bin/bash
# intake of a seeded defect produced by a sub-agent in a scratch worktree:
#   tools/intake_seeded.sh <name> <property> [extra check ids...]
# 1. confirm the demo fails with the change and passes without it (in the worktree)
# 2. store patch.diff, demo, meta.json under /verif/seeded/<name>/
# 3. run the property's quick check against a scratch copy of /repo/src with the patch applied
set -u
name=$1; prop=$2; shift 2
wt=/tmp/wt_$name
out=/verif/seeded/$name
mkdir -p $out
git -C $wt diff -- src > $out/patch.diff
[ -s $out/patch.diff ] || cp $wt/seeded_out/patch.diff $out/patch.diff
demo=$(ls $wt/seeded_out/demo*.py | head -1)
cp $demo $out/
cp $wt/seeded_out/meta.json $out/meta.agent.json 2>/dev/null
run_demo() { (cd $wt && PYTHONPATH=$wt/src timeout 600 /venv/bin/python $([[ $demo == *test* ]] && echo "-m pytest -q -p no:cacheprovider") $demo > /tmp/demo_$name.$1.txt 2>&1; echo $?); }
rc_with=$(run_demo with)
# (git stash is shared between the worktrees of one repository: never use it here)
git -C $wt checkout -q -- src
rc_without=$(run_demo without)
git -C $wt apply $out/patch.diff
echo "demo: with change rc=$rc_with, without rc=$rc_without"
cd /verif
/venv/bin/python - "$name" "$prop" "$rc_with" "$rc_without" "$@" <<'EOF'
import json, os, sys
sys.path.insert(0, "/verif")
os.environ.setdefault("PYTHONHASHSEED", "0")
from dsim import selftest
name, prop, rc_with, rc_without, *extra = sys.argv[1:]
out = f"/verif/seeded/{name}"
agent = json.load(open(f"{out}/meta.agent.json")) if os.path.exists(f"{out}/meta.agent.json") else {}
res = selftest.run_against_patch(f"{out}/patch.diff", [prop, *extra], seed=0)
meta = {
    "property": prop,
    "checks": [prop, *extra],
    "source": "independent sub-agent given only the property text and a scratch worktree",
    "what_it_breaks": agent.get("what_it_breaks"),
    "needs_to_manifest": agent.get("needs_to_manifest"),
    "files_touched": agent.get("files_touched"),
    "tests_run_by_agent": agent.get("tests_run"),
    "demo_confirmed": {"exit_with_change": int(rc_with), "exit_without_change": int(rc_without)},
    "what_i_ran": f"demo in the worktree with and without the change; ./check <id> --tier quick --seed 0 with VERIF_REPO_SRC pointing at a scratch copy of /repo/src with patch.diff applied",
    "check_results_seed0": {k: {"exit": v["rc"], "wall_s": v["wall"], "first_lines": v["lines"][:3]} for k, v in res.items()},
    "caught_by": [k for k, v in res.items() if v["rc"] == 1],
}
json.dump(meta, open(f"{out}/meta.json", "w"), indent=1)
print(json.dumps(meta["check_results_seed0"], indent=1)[:1500])
print("CAUGHT BY", meta["caught_by"])
EOF
