#!/bin/bash
# run every registered quick check for the given seeds; print one line per (check, seed)
cd /verif
for seed in "$@"; do
  for id in $(python3 -c "import json;print(' '.join(c['property_id'] for c in json.load(open('MANIFEST.json'))['checks']))"); do
    out=$(VERIF_SEED=$seed timeout 1200 ./check $id --tier quick 2>&1); rc=$?
    echo "seed=$seed $id rc=$rc $(echo "$out" | grep -c '^VIOLATION') violations; $(echo "$out" | grep -m1 "^$id tier" | cut -c1-110)"
    if [ $rc -ne 0 ]; then echo "$out" | grep -v "^  File\|^    " | tail -15 | cut -c1-600; fi
  done
done
