#!/venv/bin/python
"""Debug helper: execute runs of one machine in this process. usage: run_one.py machine start stop [seed] [tier]"""
import os, sys, time
os.environ.setdefault("PYTHONHASHSEED", "0")
sys.path.insert(0, os.environ.get("VERIF_REPO_SRC", "/repo/src")); sys.path.insert(0, "/verif")
from dsim import runner
runner._quiet()
mod = runner.machine_module(sys.argv[1])
seed = int(sys.argv[4]) if len(sys.argv) > 4 else 0
tier = sys.argv[5] if len(sys.argv) > 5 else "quick"
for i in range(int(sys.argv[2]), int(sys.argv[3])):
    t0 = time.time()
    print("run", i, end=" ", flush=True)
    r = runner.execute_run(mod, seed, i, tier)
    print(r["status"], f"{time.time()-t0:.2f}s", r["digest"], [v["clause"] + " | " + v["signature"] for v in r["violations"]], flush=True)
    if r["status"] == "harness_error":
        print(r["error"])
    if os.environ.get("SHOW"):
        print(r["sample"])
