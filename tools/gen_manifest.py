#!/usr/bin/env python3
"""Regenerate /verif/MANIFEST.json from the table below (kept in one place on purpose)."""
import json
import os

CLAIMED = {
    "C13": dict(
        category="exploration",
        design_ref="DESIGN.md section 4 (C13), 3.2, 3.3",
        technique="deterministic simulation: seeded baton-passing thread scheduler and gated real-fork workers with injected task failures; history oracles against sequential evaluation",
        text=(
            "Seeded search over schedules and failing-task subsets of gemseo's real worker pool: threads run under a "
            "baton-passing scheduler that owns every queue/lock/thread operation (plus line-level pre-emption inside gemseo files), "
            "forked workers are gated so that the tape decides every start and completion order. After each run the history is "
            "checked: positional results, exactly-once callbacks with matching index, failures confined to their slot, equality "
            "with sequential evaluation for DOEs, chains, Jacobi MDA, finite differences, and well-formed shared caches. "
            "Exploration, not enumeration: evidence reports distinct (workload, sizes, failing set, order) cases reached."
        ),
        note=(
            "Trusted: CPython GIL atomicity of C calls, multiprocessing lock primitives and manager, h5py. Process runs serialise task bodies "
            "(order simulated, simultaneity not). Worker-process death and spawn/forkserver start methods are not explored."
        ),
    ),
}

CLAIMED["C12"] = dict(
    category="fault_enumeration",
    design_ref="DESIGN.md section 4 (C12), 3.5",
    technique="deterministic simulation with crash injection: every discipline-execution crash point of a seeded configuration enumerated by file snapshot (== os._exit death, cross-checked), restart and repeated-crash sequences, checked against the store-event prefix of the uninterrupted run",
    text=(
        "For each seeded configuration (MDO/DOE scenario, formulation, algorithm, backup mode, normalisation, budget) the process death is "
        "injected at EVERY discipline execution k of the run: the backup file as it exists at that instant is captured (no HDF5 handle is open, "
        "asserted at every k; tape-chosen k are cross-checked against a real forked child killed with os._exit). Each image must load and equal "
        "the prefix of the uninterrupted run's store events (per backup mode); restarts from the images (all k in the thorough tier), including "
        "up to three successive crashes, must keep the loaded entries, never re-execute a discipline at a completely stored point, report an "
        "optimum at least as good as the best loaded point and, without normalisation, reproduce the uninterrupted history. Exhaustive over k "
        "per configuration, sampled over configurations."
    ),
    note=(
        "Configurations also vary: an observable computed by its own discipline (IDF), mixed-case output names, maximisation, complex-step "
        "differentiation (DisciplinaryOpt), counter reset or not at restart. "
        "Process death only: no torn writes or power loss (death during an export is outside the statement). MDF runs use a sequential MDA "
        "(Gauss-Seidel or Jacobi with one worker) converged to round-off, and histories of MDF runs are compared up to 1e-7 (warm versus cold MDA start). "
        "Trusted: h5py/HDF5, SciPy/NLopt determinism."
    ),
)

CLAIMED["C03"] = dict(
    category="exploration",
    design_ref="DESIGN.md section 4 (C03), 3.4, 3.6",
    technique="deterministic simulation: every driver of the factories run under a simulated clock with injected NaN/raising callables, clock jumps, budgets and repeated executions; history oracles on database, call log and result",
    text=(
        "Seeded search over (algorithm x problem x settings x budget x fault plan): each run executes a real optimisation or DOE wrapper 1-3 times on a "
        "harness problem whose callables advance a simulated clock and fail on a tape-chosen call (NaN, ValueError in DOEs, clock jump), with max_time read "
        "from that clock. Checked per execution: a result is returned (no exception) when budget, tolerance, time limit or NaN stops the run; new database "
        "entries <= N; distinct non-probe points seen by the original callables <= N and all recorded; DOE samples evaluated once and recorded in generation "
        "order. Exploration: evidence lists fired faults, stop causes reached and distinct configurations."
    ),
    note=(
        "Fault plans: NaN from a function or from a user Jacobian, ValueError in a DOE sample, clock jump, one crash of the simulation (the NEXT execution is "
        "then checked); objectives return a float, a 0-d or a size-1 array; DOEs also run with normalize_design_space=True. "
        "Composite algorithms (MultiStart, augmented Lagrangian) are only held to 'returns a result' and run with user derivatives; MNBI, OT_SOBOL_INDICES, "
        "MorrisDOE and OATDOE are not in the workload. Promptness of the time limit is not asserted. Runs in which a third-party optimiser loops forever at "
        "already recorded points are cut by a CPU-time guard and counted as inconclusive (reach probe endless_loop_at_recorded_points). NLOPT_BFGS is not "
        "given NaN faults (NLopt is nondeterministic after a callback raised)."
    ),
)
CLAIMED["C04"] = dict(
    category="exploration",
    design_ref="DESIGN.md section 4 (C04)",
    technique="deterministic simulation: selection-rule oracle re-implemented from the documentation, evaluated as a run-time invariant (after every stored value) and on every result of fault-injected driver runs",
    text=(
        "The histories are those that faults, budgets, time limits and repeated executions produce in real driver runs (partially evaluated points after a "
        "raising constraint, recorded NaN values, only-infeasible histories, ties from repeated points, maximisation). After every stored value and on each "
        "returned result an independent re-implementation of the documented rule checks: reported point recorded; feasible and not worse than any feasible "
        "recorded objective when a feasible point exists; otherwise flagged infeasible with minimal violation measure among fully evaluated points; reported "
        "objective/constraints/gradients/index are those recorded for that point."
    ),
    note=(
        "Pareto/multi-objective clause decided on the histories of sequential CustomDOE runs under raising/NaN-returning functions (reported points recorded, feasible and not dominated; completeness of the front not demanded). LP/MILP wrappers excluded from the selection "
        "oracle (they report the solver's own solution by design). Histories are produced by runs, not enumerated: shapes that no driver run produces are not reached."
    ),
)

CLAIMED["C05"] = dict(
    category="exploration",
    design_ref="DESIGN.md section 4 (C05)",
    technique="deterministic simulation: seeded operation-and-fault histories (failing runs, in-place reuse of passed buffers, clear, reopen of the cache file, pickle) on a discipline, checked operation by operation against the uncached reference and a stored-input model",
    text=(
        "A harness discipline (several inputs/outputs, self-coupled variable, optional sparse Jacobian) with each cache policy (none, last "
        "evaluation, in-memory with plain or manager dictionary, HDF5 file) and exact or tolerance matching is driven through tape-chosen histories "
        "of execute/linearize with repeated, new, within-tolerance and partially defaulted inputs, interleaved with faults: the body raises, the "
        "caller overwrites in place an array it passed earlier, the cache is cleared, the HDF5 cache is reopened with fresh objects (restart from "
        "durable state), the discipline is pickled and replaced. Each returned output/Jacobian must equal the uncached value for the same input "
        "(for a tolerance: for a stored input within it); the body may not run for a stored input; entries equal the distinct stored inputs."
    ),
    note=(
        "Arrays returned by the discipline are not mutated (outside the statement). Tolerance runs keep inputs either well inside or far outside the "
        "tolerance. Families riding along: histories of the cache protocol itself (cache_outputs/cache_jacobian/look-up/clear/reopen, all cache types, "
        "tolerance, inputs differing by size only, ten entries and more), every argument-free class of the discipline factory against an uncached twin, "
        "a discipline with a large sparse Jacobian. Concurrent sharing of caches is decided under C13. Trusted: h5py, xxhash."
    ),
)
CLAIMED["C11"] = dict(
    category="exploration",
    design_ref="DESIGN.md section 4 (C11)",
    technique="deterministic simulation: seeded store/export/reopen/restart histories on the incremental HDF5 history file, checked after every export against an ordered-dict model and at the end against a single export",
    text=(
        "Tape-chosen histories of {new point, new outputs at an existing point, append export, whole export, export through OptimizationProblem.to_hdf, "
        "reload, restart from the file with a fresh database object} over all value kinds (python float, 0-d, size-1, vector, matrix, list, empty entry; "
        "float and integer points; root and nested node). After every export the file is reloaded and compared with the model (points in order, dtype, "
        "names, values, gradients); at the end the incrementally written file must reload to the same content as a single export, and the design space "
        "and problem are round-tripped once."
    ),
    note=(
        "The simulated dimension is the durable file across exports and restarts; no I/O error or torn write is injected (HDF5 promises nothing after one). "
        "Three smaller families ride along: solved problems (to_hdf/from_hdf with solution), generated design spaces (mixed types, per-component finite or "
        "infinite bounds, missing current values, multi-character names; HDF root/nested node next to other data, CSV/text) and discipline caches re-instantiated "
        "on their file (entries and listing order, ten entries and more). These round trips are mostly functions of the object: the simulator adds the file that "
        "already holds other data and the reopen; they are sampled, not enumerated."
    ),
)

CLAIMED["C01"] = dict(
    category="exploration",
    design_ref="DESIGN.md section 4 (C01)",
    technique="deterministic simulation: seeded request histories on a preprocessed problem with injected failures of the user callables and budget cut-offs, checked request by request against a memo model and the harness's own evaluation of the user functions",
    text=(
        "Each run builds a problem from a tape-chosen design space (bounded, [0,1], equal bounds, one-sided, unbounded components, optional integer "
        "variable), a scalar, a vector (dense or sparse Jacobian) and a linear function, and a preprocessing configuration (normalised or not, database, "
        "Jacobian storage, rounding, user or finite-difference derivatives), then issues up to 25 value/Jacobian requests over <=5 points through "
        "evaluate/jac and evaluate_functions in normalised or physical coordinates, interleaved with faults (the next user call raises or returns NaN, the "
        "budget runs out) and database.clear(). Per request: value equals the user function at the independently recomputed physical point; Jacobian is "
        "the derivative in the caller's coordinates; the database holds exactly that value and the physical Jacobian under the physical point; a recorded "
        "request does not call the user function again; a failed request leaves no record."
    ),
    note=(
        "A fifth of the problems live on a ParameterSpace; derivatives are user-given (dense, CSR, CSC or COO), finite differences or complex step; a third of "
        "the problems register the new-iteration listener that evaluates observables; requests are also made at the current value of the design space. "
        "The simulator contributes the history x fault dimension; the 'for all design spaces, all functions' dimension is sampled per run, not enumerated. "
        "Finite-difference Jacobians compared to 2e-4 and not on integer columns; fractional values of integer variables only with rounding on."
    ),
)

CLAIMED["C20"] = dict(
    category="exploration",
    design_ref="DESIGN.md section 4 (C20)",
    technique="deterministic simulation: objects of a run-time catalogue are sent across the process boundary (pickle, to_pickle/from_pickle, real fork) at a seeded moment of their life and both sides continue with the same operations; differential and isolation oracles",
    text=(
        "What the simulator owns is the moment at which an object crosses the process boundary and the transport. Each run picks an object from a catalogue "
        "built at run time (7 discipline classes x 5 cache types x 2 grammar types, every class of the discipline factory that can be instantiated without "
        "argument (26, discovered at run time), ten wrapper classes built with arguments, sequential/parallel/additive chains, the seven MDA classes, MDO/DOE "
        "scenarios with three formulations, linear/quadratic/composed functions, a design space, two problems at three moments), drives a tape-chosen prefix "
        "of executions/linearisations/grammar edits, serialises it (pickle in process, to_pickle/from_pickle through a file, a real forked child that unpickles "
        "and continues, or a fresh interpreter started with another PYTHONHASHSEED that receives only the bytes), runs the same suffix on original and restored object and compares outputs, Jacobians, grammars, defaults, counters and results; then "
        "mutates the restored side and checks the original is unaffected (and that an HDF5 cache stays attached to its file)."
    ),
    note=(
        "Classes needing external tools are not in the catalogue; iterative processes are compared to 1e-6; what an original object raises is part of its "
        "behaviour (original and restored must raise alike). The serialise-and-continue operation also runs inside the C05 machine (discipline with "
        "SimpleCache/HDF5Cache)."
    ),
)

NOT_APPLICABLE = {
    "C02": "in-memory data structure driven by one caller: no schedule, clock, I/O or fault for a simulator to own; a history of edits is an input to a deterministic function (model-based property testing, another technique)",
    "C06": "deterministic numerics: the result is a function of the coupled system and settings; the only schedule-dependent part (parallel Jacobi) is decided under C13",
    "C07": "linear algebra on given partial Jacobians: nothing to schedule, delay or fail",
    "C08": "pure graph function of the disciplines' names; parallel chain execution is decided under C13",
    "C09": "numerics plus a per-request cache touched by a single caller; no fault, clock or interleaving in the statement",
    "C10": "pure functions of operands and evaluation point",
    "C14": "pure function of (algorithm, settings, seed): the seed is an input, not a source of nondeterminism to control",
    "C15": "in-memory structure edited by a single caller; no I/O beyond reading shipped schema files, no fault or schedule",
    "C16": "numerics; the parallel-evaluation clause is decided under C13 (parallel == serial approximation)",
    "C17": "numerical equivalence of formulations at given points: no schedule, clock, durable state or fault",
    "C18": "numerics of fitted models and transformers",
    "C19": "numerics/statistics of distributions",
}

PENDING = {} if True else {
    "C01": "check under construction in this session (claimed in DESIGN.md section 4): operation/fault machine against a memo model",
    "C03": "check under construction in this session (claimed in DESIGN.md section 4): drivers under a simulated clock and fault plan",
    "C04": "check under construction in this session (claimed in DESIGN.md section 4): optimum-selection invariant over fault-produced histories",
    "C05": "check under construction in this session (claimed in DESIGN.md section 4): cache machine against an uncached twin with reopen",
    "C11": "check under construction in this session (claimed in DESIGN.md section 4): store/export/reopen machine",
    "C12": "check under construction in this session (claimed in DESIGN.md section 4): crash-point sweep and restart",
    "C20": "check under construction in this session (claimed in DESIGN.md section 4): serialise-and-continue",
}

BASELINE = "cd /repo && /venv/bin/python -m pytest -ra -q -p no:cacheprovider --timeout=900 --continue-on-collection-errors"


def main():
    checks = []
    for pid, c in sorted(CLAIMED.items()):
        checks.append({
            "property_id": pid,
            "quick_cmd": f"./check {pid} --tier quick",
            "thorough_cmd": f"./check {pid} --tier thorough",
            "evidence_file": f"/verif/evidence/{pid}.json",
            "replay_cmd_template": f"./check {pid} --replay {{path}}",
            "engine": "dsim",
            "level_claimed": {"category": c["category"], "text": c["text"], "design_ref": c["design_ref"]},
            "level_note": c["note"],
            "technique": c["technique"],
        })
    na = [{"property_id": k, "reason": v} for k, v in sorted({**NOT_APPLICABLE, **{k: v for k, v in PENDING.items() if k not in CLAIMED}}.items())]
    m = {
        "version": 1,
        "setup_cmd": "/venv/bin/python -c \"import sys; sys.path.insert(0, '/repo/src'); import gemseo, h5py, numpy, scipy; print('dsim ready: gemseo from', gemseo.__file__)\"",
        "hooks": {
            "guard": "GEMSEO_VERIF",
            "enable": "no source hook exists: every seam is a module-level name of gemseo rebound by /verif/dsim for the duration of a run (dsim/seams.py, dsim/procs.py); the guard variable is reserved and unused",
            "baseline_off_cmd": BASELINE,
            "source_commits": [],
            "add_only": True,
        },
        "engines": [{
            "name": "dsim",
            "path": "/verif/dsim",
            "serves_properties": sorted(CLAIMED),
            "kind_free_text": "deterministic simulation with fault injection: one choice tape per run decides workload, sizes, faults, thread/process schedule, clock; seeded search over many runs; tape minimisation; replay files",
        }],
        "checks": checks,
        "not_applicable": na,
        "notes": "Exit codes: 0 held on everything explored (KNOWN-FINDING lines for listed findings), 1 VIOLATION with replay file, 2 harness error (never a VIOLATION). Known findings: /verif/known_findings.json.",
    }
    with open(os.path.join(os.path.dirname(__file__), "..", "MANIFEST.json"), "w") as f:
        json.dump(m, f, indent=1)
    print("claimed", sorted(CLAIMED), "n/a", [e["property_id"] for e in na])


if __name__ == "__main__":
    main()
