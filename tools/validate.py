#!/usr/bin/env python3
"""Validate MANIFEST.json and evidence files against the schemas (run with python3-vt)."""
import json, sys, glob
import jsonschema
ok = True
m = json.load(open('/verif/MANIFEST.json'))
jsonschema.validate(m, json.load(open('/root/.vp/MANIFEST.schema.json')))
print('MANIFEST ok:', [c['property_id'] for c in m['checks']], 'n/a:', [c['property_id'] for c in m.get('not_applicable', [])])
es = json.load(open('/root/.vp/EVIDENCE.schema.json'))
for c in m['checks']:
    f = c['evidence_file']
    try:
        e = json.load(open(f))
        jsonschema.validate(e, es)
        assert e['level'] == c['level_claimed']['category'], (e['level'], c['level_claimed']['category'])
        print(' evidence ok', f, e['tier'], 'evals', e['coverage']['evaluations'], 'distinct', e['coverage']['distinct_nontrivial'], 'viol', e.get('violations'))
    except Exception as ex:
        ok = False
        print(' evidence BAD', f, repr(ex)[:300])
ids = {c['property_id'] for c in m['checks']} | {c['property_id'] for c in m.get('not_applicable', [])}
props = [json.loads(l)['id'] for l in open('/verif/properties.jsonl')]
missing = [p for p in props if p not in ids]
if missing:
    ok = False
    print('properties neither claimed nor n/a:', missing)
sys.exit(0 if ok else 1)
