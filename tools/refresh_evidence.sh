#!/bin/bash
# rewrite every registered evidence file from a plain quick run (what `vp check` does) and validate
cd /verif
for id in $(python3 -c "import json;print(' '.join(c['property_id'] for c in json.load(open('MANIFEST.json'))['checks']))"); do
  out=$(timeout 1500 ./check $id --tier quick 2>&1); rc=$?
  echo "$id rc=$rc $(echo "$out" | grep -m1 "^$id tier" | cut -c1-120)"
done
python3-vt tools/validate.py | tail -12
