"""Pure functions computed by the harness cache discipline (the uncached reference)."""

from __future__ import annotations

from numpy import array


def f_of(d):
    a, b, s = d["a"], d["b"], d["s"]
    return {"y": array([a[0] * a[1] + b[0], a[0] - s[0] ** 2]), "s": s + a[:1] * b}


def df_of(d, sparse=False):
    a, b, s = d["a"], d["b"], d["s"]
    j = {
        "y": {"a": array([[a[1], a[0]], [1.0, 0.0]]), "b": array([[1.0], [0.0]]), "s": array([[0.0], [-2 * s[0]]])},
        "s": {"a": array([[b[0], 0.0]]), "b": array([[a[0]]]), "s": array([[1.0]])},
    }
    if sparse:
        from scipy.sparse import csr_array

        j["y"]["a"] = csr_array(j["y"]["a"])
    return j
