"""The choice tape: the single source of every decision of a simulated run.

Generation mode: values are drawn from ``random.Random(seed)`` and recorded.
Replay mode: values are read back from a list (out of range or exhausted -> 0).

Convention: value 0 is always the simplest alternative (no fault, lowest actor,
stop generating, smallest size), so a tape made of zeros is the simplest run and
"smaller tape" means "simpler run" for the minimiser.

Frames: ``with tape.frame("op"):`` records the index range of the choices that
belong to one operation, so the minimiser can remove the block as a whole.
"""

from __future__ import annotations

import random
from contextlib import contextmanager


def tape_seed(verif_seed: int, run_index: int, salt: int = 0) -> int:
    return (verif_seed * (1 << 20) + run_index) * 1009 + salt


class Tape:
    def __init__(self, seed: int | None = None, values=None):
        self.replay = values is not None
        self._values = list(values) if values is not None else None
        self._rng = random.Random(seed) if values is None else None
        self.rec: list[list] = []  # [tag, n, value]
        self.frames: list[list] = []  # [tag, start, end]
        self._pos = 0

    # -- primitive ---------------------------------------------------------
    def choice(self, n: int, tag: str = "") -> int:
        """Return an integer in [0, n)."""
        if n <= 1:
            v = 0
            # still recorded: keeps the tape aligned between runs whose n differs
            self._push(tag, max(n, 1), 0)
            return v
        if self.replay:
            v = self._next_value()
            if not (0 <= v < n):
                v = 0
        else:
            v = self._rng.randrange(n)
        self._push(tag, n, v)
        return v

    def _next_value(self) -> int:
        if self._pos < len(self._values):
            v = self._values[self._pos]
        else:
            v = 0
        self._pos += 1
        return int(v)

    def _push(self, tag, n, v):
        if self.replay and n <= 1:
            # consume the slot to stay aligned with the recording
            self._pos += 1
        self.rec.append([tag, n, v])

    # -- derived -------------------------------------------------------------
    def flag(self, p: float, tag: str = "") -> bool:
        """True with probability p; recorded as a 2-way choice (1 = True)."""
        if self.replay:
            v = self._next_value()
            v = 1 if v == 1 else 0
        else:
            v = 1 if self._rng.random() < p else 0
        self.rec.append([tag, 2, v])
        return bool(v)

    def weighted(self, weights, tag: str = "") -> int:
        """Index drawn with the given weights (index 0 = simplest)."""
        n = len(weights)
        if self.replay:
            v = self._next_value()
            if not (0 <= v < n) or weights[v] <= 0:
                v = 0
        else:
            v = self._rng.choices(range(n), weights=weights)[0]
        self.rec.append([tag, n, v])
        return v

    def pick(self, seq, tag: str = ""):
        return seq[self.choice(len(seq), tag)]

    def randint(self, lo: int, hi: int, tag: str = "") -> int:
        """Integer in [lo, hi]; lo is the simplest."""
        return lo + self.choice(hi - lo + 1, tag)

    def subset(self, n: int, p: float, tag: str = "") -> list[int]:
        return [i for i in range(n) if self.flag(p, f"{tag}[{i}]")]

    @contextmanager
    def frame(self, tag: str):
        start = len(self.rec)
        try:
            yield
        finally:
            self.frames.append([tag, start, len(self.rec)])

    # -- export ------------------------------------------------------------
    def values(self) -> list[int]:
        return [r[2] for r in self.rec]

    def describe(self, limit: int = 400) -> list[str]:
        return [f"{t}:{v}/{n}" for t, n, v in self.rec[:limit]]
