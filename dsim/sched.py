"""Baton-passing thread scheduler.

Real OS threads, simulated choice: exactly one actor holds the baton; every other one
is parked on its private semaphore.  At every scheduling point the running actor asks
the tape which runnable actor continues.  One tape = one exactly repeatable
interleaving.
"""

from __future__ import annotations

import sys
import threading

from .core import Inconclusive


class Deadlock(Exception):
    """No actor is runnable while some are unfinished."""


class _Abort(BaseException):
    """Raised inside parked worker threads to unwind them when a run is torn down."""


class Actor:
    __slots__ = ("name", "sem", "started", "done", "waiting", "why", "thread", "index")

    def __init__(self, name, index):
        self.name = name
        self.index = index
        self.sem = threading.Semaphore(0)
        self.started = False
        self.done = False
        self.waiting = None  # callable -> bool: True when the actor may proceed
        self.why = None
        self.thread = None


class Scheduler:
    def __init__(self, ctx, step_cap=20000, preempt_mean=0, trace_files=(), policy="random", log_schedule=True):
        self.ctx = ctx
        self.tape = ctx.tape
        self.actors: list[Actor] = []
        self.step_cap = step_cap
        self.steps = 0
        self.aborted = False
        self.failure: BaseException | None = None
        self.preempt_mean = preempt_mean
        self.trace_files = tuple(trace_files)
        self.n_preempt = 0
        self._lines_until = 0
        self.log_schedule = log_schedule
        self.starve: set[str] = set()  # actors only chosen when nothing else is runnable
        main = Actor("main", 0)
        main.started = True
        self.actors.append(main)
        self.main = main
        self.current = main
        self._threads: list[threading.Thread] = []
        if preempt_mean:
            self._draw_gap()

    # -- core ----------------------------------------------------------------
    def new_actor(self, prefix="w") -> Actor:
        a = Actor(f"{prefix}{len(self.actors) - 1}", len(self.actors))
        self.actors.append(a)
        return a

    def runnable(self):
        return [
            a
            for a in self.actors
            if a.started and not a.done and (a.waiting is None or a.waiting())
        ]

    def _choose(self, cands, why):
        if len(cands) > 1 and self.starve:
            pref = [a for a in cands if a.name not in self.starve]
            if pref:
                cands = pref
        if len(cands) == 1:
            return cands[0]
        # value 0 = lowest-numbered actor
        return cands[self.tape.choice(len(cands), "sched")]

    def _fail(self, exc, me):
        self.failure = exc
        self.aborted = True
        for a in self.actors:
            if a is not me:
                a.sem.release()
        if me is self.main:
            raise exc
        raise _Abort

    _main_thread = None

    def yield_(self, why: str):
        """Scheduling point of the running actor."""
        if self.aborted:
            self._raise_aborted()
        me = self.current
        self.steps += 1
        self.ctx.steps += 1
        if self.steps > self.step_cap:
            self._fail(Inconclusive(f"step cap {self.step_cap} reached"), me)
        cands = self.runnable()
        if not cands:
            state = [(a.name, a.why) for a in self.actors if a.started and not a.done]
            self._fail(Deadlock(f"at {me.name}:{why}; blocked={state}"), me)
        nxt = self._choose(cands, why)
        if self.log_schedule:
            self.ctx.events.append(("s", me.name, why, nxt.name))
        if nxt is not me:
            self.current = nxt
            nxt.sem.release()
            me.sem.acquire()
            if self.aborted:
                self._raise_aborted()

    def _raise_aborted(self):
        if threading.current_thread() is self._main_thread and self.failure is not None:
            raise self.failure
        raise _Abort

    def block_until(self, cond, why: str):
        me = self.current
        me.waiting = cond
        me.why = why
        try:
            self.yield_(why)
        finally:
            me.waiting = None
            me.why = None

    def exit_(self):
        """The running (worker) actor is finished: hand the baton over."""
        if self.aborted:
            return
        me = self.current
        me.done = True
        cands = self.runnable()
        if not cands:
            # nobody can continue: wake main with a deadlock
            self.failure = Deadlock(f"at exit of {me.name}")
            self.aborted = True
            for a in self.actors:
                if a is not me:
                    a.sem.release()
            return
        nxt = self._choose(cands, "exit")
        if self.log_schedule:
            self.ctx.events.append(("s", me.name, "exit", nxt.name))
        self.current = nxt
        nxt.sem.release()

    # -- line level pre-emption -----------------------------------------------------
    def _draw_gap(self):
        self._lines_until = 1 + self.tape.choice(2 * self.preempt_mean, "gap")

    def tracer(self, frame, event, arg):
        fn = frame.f_code.co_filename
        for t in self.trace_files:
            if t in fn:
                return self._line_tracer
        return None

    def _line_tracer(self, frame, event, arg):
        if event == "line" and not self.aborted:
            self._lines_until -= 1
            if self._lines_until <= 0:
                self.n_preempt += 1
                self._draw_gap()
                self.yield_(f"line:{frame.f_code.co_name}:{frame.f_lineno}")
        return self._line_tracer

    # -- life cycle ---------------------------------------------------------------
    def install(self):
        global SCHED
        SCHED = self
        self._main_thread = threading.current_thread()
        if self.preempt_mean:
            sys.settrace(self.tracer)

    def shutdown(self):
        """Unwind every parked worker thread; must be called in ``finally``."""
        global SCHED
        sys.settrace(None)
        self.aborted = True
        for a in self.actors:
            if a is not self.main and a.started and not a.done:
                a.sem.release()
        leaked = 0
        for t in self._threads:
            t.join(timeout=5)
            if t.is_alive():
                leaked += 1
        SCHED = None
        return leaked


SCHED: Scheduler | None = None


class SimThread:
    """Drop-in for ``threading.Thread`` as used by gemseo (target, args, name, daemon, start, join)."""

    def __init__(self, group=None, target=None, name=None, args=(), kwargs=None, daemon=None):
        s = SCHED
        self._sched = s
        self.actor = s.new_actor()
        self.target, self.args, self.kwargs = target, args, kwargs or {}
        self.daemon = True
        self.name = name
        self._t = threading.Thread(target=self._run, daemon=True, name=f"sim-{self.actor.name}")
        self.actor.thread = self._t
        s._threads.append(self._t)

    def _run(self):
        s = self._sched
        self.actor.sem.acquire()
        if s.aborted:
            self.actor.done = True
            return
        if s.preempt_mean:
            sys.settrace(s.tracer)
        try:
            self.target(*self.args, **self.kwargs)
        except _Abort:
            pass
        finally:
            sys.settrace(None)
            if s.aborted:
                self.actor.done = True
            else:
                s.exit_()

    def start(self):
        self.actor.started = True
        self._t.start()
        self._sched.yield_("start")

    def join(self, timeout=None):
        a = self.actor
        self._sched.block_until(lambda: a.done, f"join:{a.name}")

    def is_alive(self):
        return self.actor.started and not self.actor.done


class SimQueue:
    """Drop-in for ``queue.Queue`` (unbounded)."""

    def __init__(self, maxsize=0):
        self.items = []

    def put(self, x, block=True, timeout=None):
        self.items.append(x)
        SCHED.yield_("put")

    def get(self, block=True, timeout=None):
        SCHED.block_until(lambda: bool(self.items), "get")
        return self.items.pop(0)

    def task_done(self):
        pass

    def empty(self):
        return not self.items

    def qsize(self):
        return len(self.items)


class SimRLock:
    """Drop-in for ``multiprocessing.RLock`` / ``threading.RLock`` in thread simulations."""

    def __init__(self, *a, **k):
        self.owner = None
        self.count = 0

    def acquire(self, block=True, timeout=None):
        s = SCHED
        if s is None:  # used outside a simulation (construction time): trivial lock
            self.count += 1
            return True
        me = s.current
        if self.owner is not me:
            if self.owner is not None:
                s.ctx.probe("lock_contended")
            s.block_until(lambda: self.owner is None, "acquire")
            self.owner = me
        self.count += 1
        return True

    def release(self):
        s = SCHED
        self.count -= 1
        if s is None:
            return
        if self.count == 0:
            self.owner = None
            s.yield_("release")

    def __enter__(self):
        self.acquire()
        return self

    def __exit__(self, *a):
        self.release()


class SimValue:
    """Drop-in for ``multiprocessing.Value``."""

    def __init__(self, typecode, value=0, lock=True):
        self.value = value
        self._lock = SimRLock()

    def get_lock(self):
        return self._lock


class _NS:
    def __init__(self, **kw):
        self.__dict__.update(kw)
