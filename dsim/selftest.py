"""Self-tests of the machinery (not registered as property checks).

  ./check selftest determinism [--runs N]     same run index twice in one process, again in a fresh
                                              interpreter under another PYTHONHASHSEED and another
                                              worker count; event-log digests must be identical
  ./check selftest sensitivity [patch ...]    apply each patch of /verif/mutants (or the given ones) to a
                                              scratch copy of the repository sources, run the quick check
                                              of its property against the copy, expect a VIOLATION
"""

from __future__ import annotations

import json
import os
import shutil
import subprocess
import sys
import tempfile
import time
from concurrent.futures import ProcessPoolExecutor
from pathlib import Path

from . import runner

VERIF = Path(__file__).resolve().parent.parent
ALL_MACHINES = ["c01_problem", "c03_driver", "c04_optimum", "c05_cache", "c11_hdf", "c12_crash", "c13_threads", "c13_procs", "c20_pickle"]
DET_RUNS = {"c12_crash": 24, "c13_procs": 120, "c03_driver": 300, "c04_optimum": 300, "c20_pickle": 200}


def _digests(mname, seed, indices, twice):
    runner._quiet()
    mod = runner.machine_module(mname)
    if not os.environ.get("VERIF_DEBUG"):
        sys.stderr = open(os.devnull, "w")
    out = {}
    # as in the runner: machines marked ISOLATE execute every run in a forked child of the (warmed-up) worker, so
    # that nothing a third-party optimiser keeps in static memory leaks from one run into the next
    isolate = getattr(mod, "ISOLATE", False)
    if isolate and hasattr(mod, "warmup"):
        mod.warmup()
    one = (lambda i: runner.execute_run_isolated(mod, seed, i, "quick")) if isolate else (lambda i: runner.execute_run(mod, seed, i, "quick"))
    for i in indices:
        # (a run cut by the CPU guard or the hard CPU limit is cut at a load-dependent instant: like in the checks'
        # own mini self-test its digest is not compared, only its status)
        key = lambda r_: ("-" if r_["status"] == "inconclusive" else r_["digest"], r_["status"])  # noqa: E731
        r = one(i)
        d = key(r)
        if twice:
            r2 = one(i)
            if key(r2) != d:
                d = (d, key(r2), "DIFFERS-IN-PROCESS")
        out[i] = d
    return out


def _collect(machines, seed, n_default, workers, twice):
    import multiprocessing

    res = {}
    with ProcessPoolExecutor(max_workers=workers, mp_context=multiprocessing.get_context("fork")) as pool:
        futs = []
        for m in machines:
            n = DET_RUNS.get(m, n_default)
            idx = list(range(n))
            k = max(1, n // (workers * 2))
            for c in range(0, n, k):
                futs.append((m, pool.submit(_digests, m, seed, idx[c : c + k], twice)))
        for m, f in futs:
            res.setdefault(m, {}).update(f.result())
    return res


def determinism(args):
    seed = args.seed
    machines = [m for m in ALL_MACHINES if not args.machines or m in args.machines.split(",")]
    n = int(args.runs) if args.runs and args.runs.isdigit() else 200
    if os.environ.get("VERIF_SELFTEST_CHILD"):
        res = _collect(machines, seed, n, int(os.environ["VERIF_SELFTEST_CHILD"]), False)
        print("DIGESTS " + json.dumps({m: {str(i): d for i, d in v.items()} for m, v in res.items()}))
        return 0
    t0 = time.time()
    base = _collect(machines, seed, n, 16, True)
    bad = 0
    for m, v in base.items():
        for i, d in v.items():
            if len(d) == 3:
                bad += 1
                print(f"NONDETERMINISTIC in-process machine={m} run={i}: {d}")
    # fresh interpreter, other hash seed, other worker count
    env = {**os.environ, "PYTHONHASHSEED": "12345", "VERIF_SELFTEST_CHILD": "5"}
    cp = subprocess.run([sys.executable, str(VERIF / "check"), "selftest", "determinism", "--seed", str(seed), "--runs", str(n), "--machines", ",".join(machines)],
                        capture_output=True, text=True, env=env, timeout=7200)
    line = next((ln for ln in cp.stdout.splitlines() if ln.startswith("DIGESTS ")), None)
    if line is None:
        print("HARNESS-ERROR: the child interpreter produced no digests\n" + cp.stdout[-2000:] + cp.stderr[-2000:])
        return 2
    other = json.loads(line[len("DIGESTS "):])
    compared = 0
    for m, v in base.items():
        for i, d in v.items():
            if len(d) == 3:
                continue
            compared += 1
            o = other[m][str(i)]
            if list(d) != list(o):
                bad += 1
                print(f"NONDETERMINISTIC across interpreters machine={m} run={i}: {d} vs {o}")
    print(f"determinism: {compared} runs x (twice in process + fresh interpreter with PYTHONHASHSEED=12345 and 5 workers), mismatches={bad}, wall={time.time() - t0:.0f}s")
    for m, v in base.items():
        print(f"   {m}: {len(v)} runs")
    return 0 if bad == 0 else 2


def _patched_copy(patch):
    root = Path(tempfile.mkdtemp(prefix="dsim-mutant-", dir="/dev/shm" if os.path.isdir("/dev/shm") else None))
    src = Path(os.environ.get("VERIF_REPO_SRC", "/repo/src"))
    shutil.copytree(src, root / "src", ignore=shutil.ignore_patterns("__pycache__", "*.pyc"))
    cp = subprocess.run(["patch", "-p1", "-s", "-d", str(root), "-i", str(Path(patch).resolve())], capture_output=True, text=True)
    if cp.returncode != 0:
        shutil.rmtree(root, ignore_errors=True)
        raise RuntimeError(f"patch {patch} does not apply: {cp.stdout} {cp.stderr}")
    return root


def run_against_patch(patch, props, seed=0, tier="quick", extra_args=()):
    """Run the checks of ``props`` against a scratch copy of the sources with ``patch`` applied."""
    root = _patched_copy(patch)
    out = {}
    try:
        for prop in props:
            env = {**os.environ, "VERIF_REPO_SRC": str(root / "src"), "VERIF_SEED": str(seed), "VERIF_EVIDENCE_DIR": str(root / "evidence"),
                   "VERIF_REPLAY_DIR": str(root / "replays")}
            t0 = time.time()
            cp = subprocess.run([sys.executable, str(VERIF / "check"), prop, "--tier", tier, "--seed", str(seed), *extra_args],
                                capture_output=True, text=True, env=env, timeout=3600)
            lines = [ln for ln in cp.stdout.splitlines() if ln.startswith(("VIOLATION", "  violation"))]
            out[prop] = {"rc": cp.returncode, "wall": round(time.time() - t0, 1), "lines": lines[:6], "tail": cp.stdout[-600:] if cp.returncode == 2 else ""}
    finally:
        shutil.rmtree(root, ignore_errors=True)
    return out


def sensitivity(args):
    patches = [Path(p) for p in args.rest[1:]] or sorted((VERIF / "mutants").glob("*.patch")) + sorted((VERIF / "seeded").glob("*/patch.diff"))
    missed = 0
    for p in patches:
        meta = {}
        mfile = p.with_suffix(".json") if p.suffix == ".patch" else p.parent / "meta.json"
        if mfile.exists():
            meta = json.loads(mfile.read_text())
        props = meta.get("checks") or ([meta["property"]] if "property" in meta else [])
        if not props:
            print(f"{p}: no property recorded, skipped")
            continue
        name = p.parent.name if p.name == "patch.diff" else p.stem
        try:
            res = run_against_patch(p, props, seed=args.seed)
        except RuntimeError as exc:
            if meta.get("obsolete_after_fix"):
                print(f"OBSOLETE {name}: the change no longer applies to the repaired tree (fix {meta['obsolete_after_fix']})")
            else:
                missed += 1
                print(f"NOT-APPLICABLE {name}: {str(exc)[:200]}")
            continue
        caught = [k for k, v in res.items() if v["rc"] == 1]
        status = "CAUGHT" if caught else "MISSED"
        if not caught and meta.get("equivalent"):
            status = "MISSED-AS-EXPECTED (equivalent: " + meta["equivalent"][:80] + ")"
        elif not caught:
            missed += 1
        print(f"{status} {name}: " + "; ".join(f"{k} rc={v['rc']} {v['wall']}s" for k, v in res.items()))
        for k, v in res.items():
            for ln in v["lines"][:2]:
                print("     " + ln[:300])
    print(f"sensitivity: {len(patches)} patches, missed={missed}")
    return 0 if missed == 0 else 1


def main(rest, args):
    if not rest:
        print(__doc__)
        return 2
    if rest[0] == "determinism":
        return determinism(args)
    if rest[0] == "sensitivity":
        return sensitivity(args)
    print(__doc__)
    return 2
