"""Harness discipline of the cache machine (module level so that it can be pickled)."""

from __future__ import annotations

from numpy import array

from gemseo.core.discipline import Discipline

from .cdisc_funcs import df_of, f_of


class CDisc(Discipline):
    """a (2), b (1), s (1, self-coupled) -> y (2), s (1)."""

    def __init__(self, sparse=False, inplace=False):
        super().__init__("CDisc")
        self.inplace = inplace
        self.io.input_grammar.update_from_names(["a", "b", "s"])
        self.io.output_grammar.update_from_names(["y", "s"])
        self.io.input_grammar.defaults.update({"a": array([1.0, 2.0]), "b": array([0.5]), "s": array([0.0])})
        self.n_run = 0
        self.n_jac = 0
        self.fail_next = False
        self.sparse = sparse
        self.s_in = array([0.0])

    def _run(self, input_data):
        self.n_run += 1
        if self.fail_next:
            self.fail_next = False
            raise ValueError("injected failure of _run")
        out = f_of({k: input_data[k] for k in ("a", "b", "s")})
        if self.inplace:
            # a body that updates its self-coupled variable in place (the buffer it received)
            buf = input_data["s"]
            try:
                buf[...] = out["s"]
                out["s"] = buf
            except ValueError:  # read-only buffer
                pass
        return out

    def _compute_jacobian(self, input_names=(), output_names=()):
        self.n_jac += 1
        d = self.io.data
        self.jac = df_of({"a": d["a"], "b": d["b"], "s": self.s_in}, self.sparse)

    # the value of the self-coupled input is overwritten by the output in io.data:
    # remember the one the caller gave (harness bookkeeping, public API only)
    def execute(self, input_data=None):
        full = self.io.prepare_input_data(input_data or {})
        self.s_in = array(full["s"], copy=True)
        return super().execute(input_data or {})

    def linearize(self, input_data=None, **kw):
        full = self.io.prepare_input_data(input_data or {})
        self.s_in = array(full["s"], copy=True)
        return super().linearize(input_data or {}, **kw)
