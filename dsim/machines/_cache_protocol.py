"""Histories of the cache protocol itself (what a discipline calls), shared by C05 (transparency of look-ups)
and C11 (a cache re-instantiated on its file holds the same entries in the same order)."""

from __future__ import annotations

from numpy import array, array_equal

from ..core import canon


def dense(v):
    return v.toarray() if hasattr(v, "toarray") else array(v)


def api_history(ctx, prop="C05"):
    """cache_outputs / cache_jacobian / lookup / clear / reopen, in any order, against a dict model with
    first-write-wins slots; the listing order of a full cache is the order of first storage."""
    from gemseo.caches.hdf5_cache import HDF5Cache
    from gemseo.caches.memory_full_cache import MemoryFullCache
    from gemseo.caches.simple_cache import SimpleCache
    from gemseo.utils.singleton import SingleInstancePerFileAttribute

    t = ctx.tape
    if prop == "C11":
        policy = 4
    else:
        policy = 1 + t.weighted([3, 3, 1, 3], "policy")  # simple, memory local, memory shared, hdf5
    pname = ["", "SimpleCache", "MemoryFullCache/local", "MemoryFullCache/shared", "HDF5Cache"][policy]
    path = str(ctx.scratch / "api.h5")
    node = t.pick(["node", "a/b"], "node")
    SingleInstancePerFileAttribute.instances.clear()

    # the stored inputs are far apart: with a tolerance the look-ups are those of exact matching
    tol = 1e-3 if t.flag(0.35, "tolerance") else 0.0

    def make():
        if policy == 1:
            return SimpleCache(tolerance=tol)
        if policy in (2, 3):
            return MemoryFullCache(tolerance=tol, is_memory_shared=policy == 3)
        return HDF5Cache(tolerance=tol, hdf_file_path=path, hdf_node_path=node)

    cache = make()
    # entry names on file are decimal indices: files with ten entries or more sort them differently from numbers
    many = policy != 1 and t.flag(0.6 if prop == "C11" else 0.3, "many_keys")
    n_keys = t.randint(10, 14, "n_keys") if many else t.randint(2, 4, "n_keys")
    shift = t.choice(n_keys, "key_shift") if many else 0
    keys = [(float((k + shift) % n_keys), float(k % 2), 1, False) for k in range(n_keys)]
    if not many and t.flag(0.3, "size_variants"):
        # the same numbers in arrays of different sizes or shapes are different inputs, whatever the tolerance; a flat
        # array and a one-row matrix holding the same numbers even share their bytes, hence their hash
        keys = [(2.0, 2.0, 1, False), (2.0, 2.0, 2, False), (2.0, 2.0, 2, policy != 1), (2.0, 2.0, 3, False)][:n_keys]
        keys = list(dict.fromkeys(keys))  # (a last-entry cache holds one entry: no one-row variant there)
        n_keys = len(keys)
        ctx.probe("inputs_differing_by_size_only")
    model = {}  # key -> {"out": value or None, "jac": value or None}; SimpleCache: at most one key
    ops = []
    sig = f"cache-protocol {pname}" + (" many-entries" if many else "") + (" tolerance" if tol else "")
    counter = [0]
    cl = {"C05": ("C05.cache_protocol", "C05.entries", "C05.entries"), "C11": ("C11.cache_reload", "C11.cache_reload", "C11.cache_order")}[prop]

    def inp(k):
        b = array([k[1]] * k[2])
        return {"a": array([k[0], 1.0]), "b": b[None, :] if k[3] else b}

    def strided(d):
        # the same values as non-contiguous views of larger buffers: the same input for a cache
        out = {}
        for n, v in d.items():
            if v.ndim != 1:
                out[n] = v
                continue
            buf = array([9.0] * (2 * len(v)))
            buf[::2] = v
            out[n] = buf[::2]
        return out

    use_views = t.flag(0.3, "lookups_with_strided_views")
    # Jacobians stored as sparse blocks whose last column holds no entry (the shape is not implied by the entries)
    sparse_jac = t.flag(0.4, "sparse_jacobian")
    if sparse_jac:
        from scipy.sparse import csr_array

    # the same input given with its names in another order is the same input
    reorder = t.flag(0.3, "lookups_with_names_reordered")

    def check_all(after):
        for k in keys:
            probe_input = strided(inp(k)) if use_views else inp(k)
            if reorder:
                probe_input = dict(reversed(list(probe_input.items())))
            e = cache[probe_input]
            m = model.get(k, {"out": None, "jac": None})
            got_out = None if not e.outputs else float(array(e.outputs["y"])[0])
            try:
                got_jac = None if not e.jacobian else float(dense(e.jacobian["y"]["a"])[0, 0])
                if e.jacobian and dense(e.jacobian["y"]["a"]).shape != (1, 2):
                    got_jac = f"block of shape {dense(e.jacobian['y']['a']).shape} instead of (1, 2)"
            except (KeyError, TypeError, IndexError):
                got_jac = "malformed"
            if got_out != m["out"] or got_jac != m["jac"]:
                ctx.violate(cl[0], sig, f"after {after}: cache[{k}] holds outputs y={got_out}, Jacobian {got_jac}; the values stored for this input are y={m['out']}, Jacobian {m['jac']}; ops={ops}")
        n = len(cache)
        if n != len(model):
            ctx.violate(cl[1], sig, f"after {after}: {n} entries, {len(model)} inputs were stored; ops={ops}")
        if policy != 1:
            listed = [(float(e.inputs["a"][0]), float(array(e.inputs["b"]).ravel()[0]), array(e.inputs["b"]).size, array(e.inputs["b"]).ndim == 2) for e in cache.get_all_entries()]
            if listed != list(model):
                ctx.violate(cl[2], sig + " listing", f"after {after}: get_all_entries lists the inputs {listed}; they were stored in the order {list(model)}; ops={ops}")
            if many and after[0] == "reopen":
                ctx.probe("reopened_with_ten_entries_or_more", int(len(model) >= 10))

    def store(op, k, val):
        if k[3] and (k[0], k[1], k[2], False) not in model:
            # (a flat query matches a stored one-row entry by design - the reverse is not true: the row variant is
            # only stored once its flat twin is, so that both are distinct entries in the unchanged tree)
            return False
        if op == 0:
            ops.append(("cache_outputs", k, val))
            cache.cache_outputs(inp(k), {"y": array([val])})
        else:
            ops.append(("cache_jacobian", k, val))
            cache.cache_jacobian(inp(k), {"y": {"a": csr_array(array([[val, 0.0]])) if sparse_jac else array([[val, 0.0]])}})
        if policy == 1 and k not in model:
            model.clear()
        m = model.setdefault(k, {"out": None, "jac": None})
        slot = "out" if op == 0 else "jac"
        if m[slot] is None:
            m[slot] = val
        return True

    if many:
        for k in keys[: t.randint(9, n_keys, "n_prefilled")]:
            counter[0] += 1
            store(t.weighted([4, 1], "prefill_kind"), k, float(counter[0]))
        check_all(("prefill",))
    weights = [5, 5, 1, 2] if not many else [4, 4, 1, 5]
    for i in range(t.randint(1, 14, "n_ops")):
        with t.frame("op"):
            op = t.weighted(weights, "op")
            k = keys[t.choice(n_keys, "key")]
            counter[0] += 1
            val = float(counter[0])  # every written value is unique: each read is attributable to one write
            if op in (0, 1):
                if not store(op, k, val):
                    continue
            elif op == 2 and (model or policy != 4):
                ops.append(("clear",))
                cache.clear()
                model.clear()
            elif op == 3 and policy == 4:
                ops.append(("reopen",))
                SingleInstancePerFileAttribute.instances.clear()
                cache = make()
                ctx.fire("cache_reopened_from_file")
            else:
                continue
            check_all(ops[-1])
    SingleInstancePerFileAttribute.instances.clear()
    ctx.event("ops", canon(ops))
    ctx.case((pname, canon(ops)), nontrivial=len(ops) >= 3)
    ctx.sample = {"family": "cache protocol", "policy": pname, "ops": [list(map(str, o)) for o in ops][-20:]}
