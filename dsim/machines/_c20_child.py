"""Fresh interpreter side of the C20 "other interpreter" transport.

    python _c20_child.py <request.pkl> <reply.pkl>

The request holds the pickled object, the suffix operations and their inputs; the interpreter is started with
another PYTHONHASHSEED than the one that pickled the object, as a restart on another day or machine would be.
"""
import os
import pickle
import sys

if __name__ == "__main__":
    verif = os.path.dirname(os.path.dirname(os.path.dirname(os.path.abspath(__file__))))
    sys.path[:0] = [os.environ.get("VERIF_REPO_SRC", "/repo/src"), verif]
    import logging

    logging.disable(logging.CRITICAL)
    from dsim.machines import c20_pickle as m

    with open(sys.argv[1], "rb") as f:
        req = pickle.load(f)
    try:
        res = ("ok", getattr(m, req.get("fn", "child_discipline"))(req))
    except BaseException as exc:  # noqa: BLE001
        res = ("exc", repr(exc))
    with open(sys.argv[2], "wb") as f:
        pickle.dump(res, f)
