"""C05: discipline caches against an uncached twin, with failing runs, buffer reuse and reopen."""

from __future__ import annotations

from numpy import array, array_equal

from ..core import canon

PROP = "C05"
NAME = "c05_cache"
RUNS = {"quick": 3000, "thorough": 150000}
TIMEOUT = 180
CHUNK = 40
RULE = (
    "each run draws a cache policy {none, simple, memory-full (shared memory or not), HDF5} x tolerance {0, 1e-3} and a history of up to 25 "
    "operations {execute / linearize (all or a subset) with a pooled, new, perturbed-within-tolerance or partially defaulted input; the caller "
    "overwrites in place an array it passed earlier; the next _run raises; cache.clear(); reopen of the HDF5 file with fresh objects; pickle "
    "round trip of the discipline}; distinct by (policy, decoded history); non-trivial when some input was requested at least twice"
)
COMPONENTS_REAL = ["Discipline.execute/linearize cache protocol", "SimpleCache", "MemoryFullCache (plain dict and manager dict)", "HDF5Cache + HDF5FileSingleton + h5py on /dev/shm", "hash_data / compare_dict_of_arrays", "pickle of disciplines"]
COMPONENTS_STUB = ["the harness discipline body (counts runs, fails on demand)", "the caller (operation generator)"]
ASSUMPTIONS = [
    "arrays RETURNED by a discipline are never mutated by the harness (the statement only covers arrays the caller passed in)",
    "with tolerance t > 0 inputs are either within t/10 of a stored input or farther than 100 t, so the exact norm of the matching rule is not second-guessed",
    "a failed _run is followed by a status reset, as DisciplineAdapter does",
]

TOL = 1e-3


from ..cdisc_funcs import df_of, f_of  # noqa: E402


DEFAULTS = {"a": (1.0, 2.0), "b": (0.5,), "s": (0.0,)}
_CLS = {}


def key_of(full):
    return tuple((k, tuple(float(v) for v in full[k])) for k in ("a", "b", "s"))


def cluster_of(key, tol):
    if not tol:
        return key
    return tuple((k, tuple(round(v * 4) / 4 for v in vals)) for k, vals in key)


def dense(v):
    return v.toarray() if hasattr(v, "toarray") else array(v)


from ._cache_protocol import api_history  # noqa: E402


def large_sparse_jacobian(ctx):
    """A discipline whose (sparse) Jacobian has thousands of non-zero entries, linearized at repeated and new
    inputs with each cache type, against the Jacobian of the uncached function."""
    import numpy as np
    from scipy.sparse import csr_array

    from gemseo.core.discipline import Discipline
    from gemseo.utils.singleton import SingleInstancePerFileAttribute

    t = ctx.tape
    n = t.pick([40, 130, 150], "size")
    policy = t.pick(["SimpleCache", "MemoryFullCache", "HDF5Cache"], "policy")
    a = (np.arange(n * n).reshape(n, n) % 7 + 1.0) / 8.0

    class Big(Discipline):
        def __init__(self):
            super().__init__("Big")
            self.io.input_grammar.update_from_names(["x"])
            self.io.output_grammar.update_from_names(["y"])
            self.io.input_grammar.defaults["x"] = np.zeros(n)
            self.n_run = 0

        def _run(self, input_data):
            self.n_run += 1
            x = input_data["x"]
            return {"y": a @ x + x * x}

        def _compute_jacobian(self, input_names=(), output_names=()):
            self.jac = {"y": {"x": csr_array(a + np.diag(2 * self.io.data["x"]))}}

    SingleInstancePerFileAttribute.instances.clear()
    d = Big()
    if policy == "HDF5Cache":
        d.set_cache("HDF5Cache", hdf_file_path=str(ctx.scratch / "big.h5"), hdf_node_path="n")
    else:
        d.set_cache(policy)
    sig = f"large sparse Jacobian {policy}"
    xs = [np.full(n, 0.5), np.linspace(0.0, 1.0, n)]
    seq = [t.choice(2, f"x[{i}]") for i in range(t.randint(1, 4, "n_lin"))]
    ctx.event("cfg", n, policy, tuple(seq))
    for i, k in enumerate(seq):
        try:
            jac = d.linearize({"x": xs[k].copy()}, compute_all_jacobians=True)
        except Exception as exc:  # noqa: BLE001
            ctx.violate("C05.jacobian_equal_uncached", sig + f" raised={type(exc).__name__}",
                        f"linearize number {i + 1} of a discipline with a {n}x{n} sparse Jacobian ({n * n} stored entries) raised {exc!r} with {policy}; the uncached discipline returns the Jacobian")
        got = dense(jac["y"]["x"])
        if got.shape != (n, n) or not array_equal(got, a + np.diag(2 * xs[k])):
            ctx.violate("C05.jacobian_equal_uncached", sig, f"linearize number {i + 1} (input {k}) returned a Jacobian that differs from the uncached one; sequence {seq}")
    if policy != "SimpleCache" and d.n_run > len(set(seq)):
        ctx.violate("C05.runs_once_per_input", sig, f"the body ran {d.n_run} times for {len(set(seq))} distinct inputs; sequence {seq}")
    SingleInstancePerFileAttribute.instances.clear()
    ctx.probe("large_sparse_jacobian_histories")
    ctx.case(("large sparse", n, policy, tuple(seq)), nontrivial=len(seq) >= 2)
    ctx.sample = {"family": "large sparse Jacobian", "size": n, "policy": policy, "sequence": seq}


def factory_discipline_history(ctx):
    """"For every discipline": a class of the discipline factory (those that need no argument) with a cache, against
    an uncached twin of the same class running the same history of executions and linearizations."""
    import numpy as np

    from gemseo.core.discipline import Discipline
    from gemseo.disciplines.factory import DisciplineFactory
    from gemseo.utils.singleton import SingleInstancePerFileAttribute

    from .c20_pickle import factory_catalogue

    t = ctx.tape
    cat = [c for c in factory_catalogue() if c[0] != "DensityFilter"]  # (its 10^4 x 10^4 Jacobian: see the large-sparse family)
    # (processes - chains, MDAs - come up six times more often: their Jacobian is composed from the state of sub-disciplines)
    cat = [c for c in cat for _ in range(6 if ("Chain" in c[0] or "MDA" in c[0]) else 1)]
    name, lin_ok, _ = cat[t.choice(len(cat), "factory_index")]
    policy = t.pick(["SimpleCache", "MemoryFullCache", "HDF5Cache"], "policy")
    SingleInstancePerFileAttribute.instances.clear()
    fac = DisciplineFactory()
    d, twin = fac.create(name), fac.create(name)
    twin.set_cache(Discipline.CacheType.NONE)
    if policy == "HDF5Cache":
        d.set_cache("HDF5Cache", hdf_file_path=str(ctx.scratch / "fac.h5"), hdf_node_path="n")
    else:
        d.set_cache(policy)
    base = {k: np.array(v, dtype=float, copy=True) for k, v in d.io.input_grammar.defaults.items() if isinstance(v, np.ndarray) and v.dtype.kind in "fi"}
    pool = [{}, {k: v * 1.02 for k, v in base.items()}, {k: v * 0.97 for k, v in base.items()}]
    iterative = "MDA" in name or "Chain" in name
    rtol = 1e-5 if iterative else 1e-12
    # the caller hands over the same arrays at every call and overwrites them in place between two calls
    reuse = bool(base) and t.flag(0.4, "caller_reuses_buffers")
    buffers = {n: v.copy() for n, v in base.items()}
    if reuse:
        pool[0] = {n: v.copy() for n, v in base.items()}
        ctx.fire("caller_overwrites_passed_array")
    sig = f"factory discipline {name} {policy}"
    ops = []
    # "come back" histories: execute at a, execute at b, then linearize at a (outputs of a come from the cache while
    # the internal state of a process is the one of b)
    forced = [(False, 1), (False, 2), (True, 1)] if lin_ok and t.flag(0.3, "come_back_history") else []
    for i in range(len(forced) or t.randint(2, 6, "n_ops")):
        with t.frame("op"):
            if forced:
                lin, k = forced[i]
            else:
                k = t.choice(3, "input")
                lin = lin_ok and t.flag(0.5, "linearize")
            ops.append(("lin" if lin else "exec", k))
            res = []
            if reuse:
                for n_, v_ in pool[k].items():
                    buffers[n_][...] = v_
            for obj in (twin, d):
                inp = {n: v.copy() for n, v in pool[k].items()} if (obj is twin or not reuse) else buffers
                if lin:
                    jac = obj.linearize(inp, compute_all_jacobians=True)
                    res.append({o: {i_: dense(v) for i_, v in jo.items()} for o, jo in jac.items()})
                else:
                    out = obj.execute(inp)
                    res.append({n: np.array(out[n], copy=True) for n in obj.io.output_grammar.names if n in out})
            exp, got = res
            if lin:
                bad = [(o, i_) for o in exp for i_ in exp[o] if o not in got or i_ not in got[o] or got[o][i_].shape != exp[o][i_].shape
                       or not np.allclose(got[o][i_], exp[o][i_], rtol=rtol, atol=rtol)]
                if bad:
                    o, i_ = bad[0]
                    ctx.violate("C05.jacobian_equal_uncached", sig, f"after {ops}: d{o}/d{i_} differs from the uncached twin (max difference "
                                f"{abs(got[o][i_] - exp[o][i_]).max() if o in got and i_ in got[o] and got[o][i_].shape == exp[o][i_].shape else 'shape'})")
            else:
                bad = [n for n in exp if n not in got or np.asarray(got[n]).shape != np.asarray(exp[n]).shape or not np.allclose(np.asarray(got[n], dtype=float), np.asarray(exp[n], dtype=float), rtol=rtol, atol=rtol)]
                if bad:
                    ctx.violate("C05.outputs_equal_uncached", sig, f"after {ops}: output {bad[0]} = {got.get(bad[0])} differs from the uncached twin {exp[bad[0]]}")
    SingleInstancePerFileAttribute.instances.clear()
    ctx.event("ops", name, policy, tuple(ops))
    ctx.probe("factory_discipline_histories")
    ctx.case(("factory", name, policy, tuple(ops)), nontrivial=len(set(k for _, k in ops)) >= 2)
    ctx.sample = {"family": "factory discipline against an uncached twin", "class": name, "policy": policy, "ops": [list(o) for o in ops]}


def process_history(ctx):
    """Chains built from analytic disciplines (sequential, parallel, additive) with a cache on the process, against an
    uncached twin (no cache at any level): the sub-disciplines keep their own default caches and share input
    components between the points of the history."""
    import numpy as np

    from gemseo import create_discipline
    from gemseo.core.chains.additive_chain import MDOAdditiveChain
    from gemseo.core.chains.chain import MDOChain
    from gemseo.core.chains.parallel_chain import MDOParallelChain
    from gemseo.core.discipline import Discipline
    from gemseo.utils.singleton import SingleInstancePerFileAttribute

    t = ctx.tape
    kind = t.pick(["MDOParallelChain", "MDOChain", "MDOAdditiveChain"], "process")
    policy = t.pick(["MemoryFullCache", "HDF5Cache", "SimpleCache"], "policy")
    sub_cache = t.pick(["SimpleCache", "none", "MemoryFullCache"], "sub_discipline_cache")

    def build(cached):
        if kind == "MDOChain":
            d1 = create_discipline("AnalyticDiscipline", expressions={"p": "a**2+a"}, name="A")
            d2 = create_discipline("AnalyticDiscipline", expressions={"q": "p**2+b**3"}, name="B")
        elif kind == "MDOAdditiveChain":
            d1 = create_discipline("AnalyticDiscipline", expressions={"p": "a**2+a", "s": "a**3"}, name="A")
            d2 = create_discipline("AnalyticDiscipline", expressions={"q": "b**3", "s": "2*b**2"}, name="B")
        else:
            d1 = create_discipline("AnalyticDiscipline", expressions={"p": "a**2+a"}, name="A")
            d2 = create_discipline("AnalyticDiscipline", expressions={"q": "b**3+b"}, name="B")
        for d_ in (d1, d2):
            if not cached or sub_cache == "none":
                d_.set_cache(Discipline.CacheType.NONE)
            elif sub_cache == "MemoryFullCache":
                d_.set_cache("MemoryFullCache")
        if kind == "MDOChain":
            proc = MDOChain([d1, d2])
        elif kind == "MDOAdditiveChain":
            proc = MDOAdditiveChain([d1, d2], outputs_to_sum=["s"], n_processes=1)
        else:
            proc = MDOParallelChain([d1, d2], n_processes=1)
        if not cached:
            proc.set_cache(Discipline.CacheType.NONE)
        elif policy == "HDF5Cache":
            proc.set_cache("HDF5Cache", hdf_file_path=str(ctx.scratch / "proc.h5"), hdf_node_path="n")
        else:
            proc.set_cache(policy)
        return proc

    SingleInstancePerFileAttribute.instances.clear()
    d, twin = build(True), build(False)
    a_vals, b_vals = [1.0, 2.0], [0.5, 3.0]
    pool = [{"a": array([a_vals[i]]), "b": array([b_vals[j]])} for i in range(2) for j in range(2)]  # 0:(a0,b0) 1:(a0,b1) 2:(a1,b0) 3:(a1,b1)
    sig = f"process {kind} {policy} sub={sub_cache}"
    # "come back" pattern: execute P3; linearize P0; execute P1 (shares a with P0); linearize P3
    forced = [(False, 3), (True, 0), (False, 1), (True, 3)] if t.flag(0.3, "come_back_history") else []
    ops = []
    for i in range(len(forced) or t.randint(2, 7, "n_ops")):
        with t.frame("op"):
            if forced:
                lin, k = forced[i]
            else:
                k = t.choice(4, "input")
                lin = t.flag(0.5, "linearize")
            ops.append(("lin" if lin else "exec", k))
            res = []
            for obj in (twin, d):
                inp = {n: v.copy() for n, v in pool[k].items()}
                if lin:
                    jac = obj.linearize(inp, compute_all_jacobians=True)
                    res.append({o: {i_: dense(v) for i_, v in jo.items()} for o, jo in jac.items()})
                else:
                    out = obj.execute(inp)
                    res.append({n: np.array(out[n], copy=True) for n in obj.io.output_grammar.names})
            exp, got = res
            if lin:
                bad = [(o, i_) for o in exp for i_ in exp[o] if o not in got or i_ not in got[o] or got[o][i_].shape != exp[o][i_].shape or not np.allclose(got[o][i_], exp[o][i_], rtol=1e-12, atol=1e-12)]
                if bad:
                    o, i_ = bad[0]
                    ctx.violate("C05.jacobian_equal_uncached", sig, f"after {ops}: d{o}/d{i_} = {got.get(o, {}).get(i_)} differs from the uncached twin {exp[o][i_]}")
            else:
                bad = [n for n in exp if not np.allclose(got[n], exp[n], rtol=1e-12, atol=1e-12)]
                if bad:
                    ctx.violate("C05.outputs_equal_uncached", sig, f"after {ops}: output {bad[0]} = {got[bad[0]]} differs from the uncached twin {exp[bad[0]]}")
    SingleInstancePerFileAttribute.instances.clear()
    ctx.event("ops", kind, policy, sub_cache, tuple(ops))
    ctx.probe("process_histories")
    ctx.case(("process", kind, policy, sub_cache, tuple(ops)), nontrivial=len(set(k for _, k in ops)) >= 2)
    ctx.sample = {"family": "chain against an uncached twin", "process": kind, "policy": policy, "sub_discipline_cache": sub_cache, "ops": [list(o) for o in ops]}


def warmup():
    from .c20_pickle import factory_catalogue

    factory_catalogue()


def run(ctx):
    if ctx.tape.flag(0.01, "large_sparse_jacobian"):
        return large_sparse_jacobian(ctx)
    if ctx.tape.flag(0.06, "process_history"):
        return process_history(ctx)
    if ctx.tape.flag(0.08, "factory_discipline"):
        return factory_discipline_history(ctx)
    if ctx.tape.flag(0.2, "cache_protocol_history"):
        return api_history(ctx)
    from gemseo.core.discipline import Discipline
    from gemseo.core.execution_status import ExecutionStatus
    from gemseo.utils.singleton import SingleInstancePerFileAttribute

    from ..cdisc import CDisc
    t = ctx.tape
    policy = t.weighted([1, 3, 4, 2, 3], "policy")  # none, simple, memory (local), memory (shared), hdf5
    tol = TOL if t.flag(0.35, "tolerance") else 0.0
    sparse = t.flag(0.2, "sparse_jacobian")
    inplace = t.flag(0.3, "body_updates_self_coupled_input_in_place")
    pname = ["none", "SimpleCache", "MemoryFullCache/local", "MemoryFullCache/shared", "HDF5Cache"][policy]
    path = str(ctx.scratch / "cache.h5")

    def attach(d):
        if policy == 0:
            d.set_cache(Discipline.CacheType.NONE)
        elif policy == 1:
            d.set_cache("SimpleCache", tolerance=tol)
        elif policy in (2, 3):
            d.set_cache("MemoryFullCache", tolerance=tol, is_memory_shared=policy == 3)
        else:
            d.set_cache("HDF5Cache", tolerance=tol, hdf_file_path=path, hdf_node_path="node")

    SingleInstancePerFileAttribute.instances.clear()
    d = CDisc(sparse, inplace)
    attach(d)
    full_cache = policy in (2, 3, 4)
    # another discipline caching in the SAME file under another node: the two nodes never mix
    nb = None
    nb_seen = []
    if policy == 4 and t.flag(0.3, "neighbour_node_in_the_same_file"):
        from ..models import HDisc

        nb = HDisc("N", ["a", "b"], ["y", "z"], {"a": 2, "b": 1, "y": 2, "z": 1}, salt=4)
        nb.set_cache("HDF5Cache", hdf_file_path=path, hdf_node_path="neighbour")
        ctx.probe("two_nodes_in_one_cache_file")
    jac_only = set()  # inputs for which the cache holds a Jacobian and no outputs (tolerance runs)
    stored = []  # keys of the inputs held by the cache (model), in storage order
    passed = []  # dicts of arrays handed to the discipline (the caller's buffers)
    ops = []
    n_ops = t.randint(1, 25, "n_ops")
    sig = f"{pname} tol={'>0' if tol else '0'}"
    allowed_runs = 0
    runs_base = 0
    repeated = False
    pool = []

    def grid(tag, n):
        return [t.randint(0, 3, f"{tag}[{j}]") * 1.0 for j in range(n)]

    def draw_input(i):
        """Return (dict passed by the caller, kind)."""
        kind = t.weighted([4, 3, 2, 2], "input_kind") if pool else 1
        if kind == 0:
            base = pool[t.choice(len(pool), "pool_index")]
            inp = {k: array(v) for k, v in base.items()}
        elif kind == 1:
            inp = {"a": array(grid(f"a{i}", 2)), "b": array(grid(f"b{i}", 1)), "s": array(grid(f"s{i}", 1))}
            pool.append({k: v.copy() for k, v in inp.items()})
        elif kind == 2:
            base = pool[t.choice(len(pool), "pool_index")]
            inp = {k: array(v) for k, v in base.items()}
            name = t.pick(["a", "b", "s"], "perturbed")
            inp[name] = inp[name] + (TOL / 10 if tol else 0.0) * (1 if t.flag(0.5, "sign") else -1)
        else:
            base = pool[t.choice(len(pool), "pool_index")]
            inp = {k: array(v) for k, v in base.items()}
            # (an in-place body would update the grammar's default array of the self-coupled variable,
            # for the cached discipline and for an uncached twin alike: s is then always given)
            inp.pop(t.pick(["a", "b"] if inplace else ["a", "b", "s"], "dropped"))
            ctx.probe("partially_defaulted_input")
        return inp, kind

    def full_of(inp):
        return {k: array(inp[k] if k in inp else DEFAULTS[k], dtype=float) for k in ("a", "b", "s")}

    def lookup(key):
        """Model: keys of stored inputs matching the query."""
        if policy == 0:
            return []
        c = cluster_of(key, tol)
        cands = [k for k in stored if cluster_of(k, tol) == c]
        if policy == 1:
            cands = [k for k in stored[-1:] if cluster_of(k, tol) == c]
        return cands

    def note_store(key):
        nonlocal stored
        if policy == 0:
            return
        if policy == 1:
            stored = [key]
        elif key not in stored:
            stored.append(key)

    def check_outputs(out, key, hits, what):
        # (within a tolerance, an input that is not itself stored is a distinct input: the cache may serve the outputs of a
        # stored input within the tolerance or let the body run - then the outputs are those of the input itself)
        shadowed = tol and any(cluster_of(k_, tol) == cluster_of(key, tol) for k_ in jac_only)
        cands = (list(hits) + ([key] if shadowed and key not in hits else [])) or [key]
        for k in cands:
            exp = f_of({n: array(v) for n, v in k})
            if all(array_equal(array(out[n]), exp[n]) for n in exp):
                return
        ctx.violate("C05.outputs_equal_uncached", f"{sig} {what}",
                    f"{what} returned y={out.get('y')} s={out.get('s')} for input {key}; expected the uncached outputs of one of {cands}; ops={ops}")

    def check_jacobian(jac, key, hits, what, outs=("y", "s"), ins=("a", "b", "s")):
        cands = list(hits) + [key]
        for k in cands:
            exp = df_of({n: array(v) for n, v in k})
            ok = True
            for o in outs:
                for i in ins:
                    try:
                        got = dense(jac[o][i])
                    except (KeyError, TypeError):
                        ok = False
                        break
                    if got.shape != exp[o][i].shape:
                        ok = False
                    elif tol:
                        # within tolerance the Jacobian may be evaluated at a mix of the stored and the given inputs
                        if abs(got - exp[o][i]).max() > 10 * TOL:
                            ok = False
                    elif not array_equal(got, exp[o][i]):
                        ok = False
                if not ok:
                    break
            if ok:
                return
        ctx.violate("C05.jacobian_equal_uncached", f"{sig} {what}",
                    f"{what} returned a Jacobian that is not the one of the uncached discipline for input {key} (or a stored input within tolerance {cands}): "
                    f"{ {o: {i: dense(jac[o][i]).tolist() for i in jac[o]} for o in jac} }; ops={ops}")

    for i in range(n_ops):
        with t.frame("op"):
            op = t.weighted([6, 4, 2, 1, 1, 2, 1], "op")
            if inplace and op == 1:
                # with a body updating its self-coupled input in place, the Jacobian is computed and cached for
                # the post-run value of that input (in the unchanged tree, with or without cache): only
                # executions are compared in this mode
                op = 0
            if op in (0, 1):
                inp, kind = draw_input(i)
                full = full_of(inp)
                key = key_of(full)
                hits = lookup(key)
                if hits or any(o[1] == key for o in ops if o[0] in ("exec", "lin")):
                    repeated = True
                caller = {k: v.copy() for k, v in inp.items()}
                passed.append(caller)
                n0 = d.n_run
                if op == 0:
                    ops.append(("exec", key))
                    out = {k: array(v, copy=True) for k, v in d.execute(caller).items()}
                    ctx.event("exec", key, canon(out["y"]), canon(out["s"]), d.n_run - n0)
                    check_outputs(out, key, hits, "execute")
                else:
                    subset = t.flag(0.35, "subset")
                    ops.append(("lin", key, "subset" if subset else "all"))
                    if subset:
                        d.add_differentiated_inputs(["a", "s"])
                        d.add_differentiated_outputs(["y"])
                        jac = d.linearize(caller)
                        check_jacobian(jac, key, hits, "linearize(subset)", outs=("y",), ins=("a", "s"))
                    else:
                        jac = d.linearize(caller, compute_all_jacobians=True)
                        check_jacobian(jac, key, hits, "linearize(all)")
                    ctx.event("lin", key, canon({o: {i_: dense(v) for i_, v in jo.items()} for o, jo in jac.items()}), d.n_run - n0)
                ran = d.n_run - n0
                shadow = [k_ for k_ in jac_only if cluster_of(k_, tol) == cluster_of(key, tol)] if tol else []
                if tol and hits and key not in hits and not ran and op == 1 and full_cache:
                    jac_only.add(key)  # the Jacobian computed for this input is stored as an entry of its own, without outputs
                if hits and tol and key not in hits and ran and shadow:
                    # a distinct input within the tolerance of a stored one, not served from the cache: the first entry found
                    # within the tolerance holds a Jacobian and no outputs. One run, a new stored input.
                    ctx.probe("input_within_tolerance_not_served_from_the_cache")
                    jac_only.discard(key)
                    if ran > 1:
                        ctx.violate("C05.runs_once_per_input", sig, f"the body ran {ran} times for the new input {key}; ops={ops}")
                    note_store(key)
                elif hits:
                    ctx.probe("cache_hit_expected")
                    if ran and full_cache:
                        ctx.violate("C05.runs_once_per_input", sig, f"the body ran again for input {key} although {hits} is stored; ops={ops}")
                    if ran and policy == 1:
                        ctx.violate("C05.runs_once_per_input", sig + " last-entry", f"the body ran again for the last evaluated input {key}; ops={ops}")
                else:
                    note_store(key)
                if policy == 0 and ran != 1:
                    ctx.violate("C05.runs_once_per_input", sig, f"uncached discipline ran {ran} times for one call; ops={ops}")
            elif op == 2 and passed:
                # the caller reuses a buffer it passed earlier
                buf = passed[t.choice(len(passed), "which_buffer")]
                names = sorted(buf)
                name = names[t.choice(len(names), "which_array")]
                new = 5.0 + t.choice(3, "new_value")
                buf[name][0] = new
                ops.append(("mutate_passed_array", name, new))
                ctx.fire("caller_overwrites_passed_array")
            elif op == 3:
                inp, kind = draw_input(i)
                key = key_of(full_of(inp))
                hits = lookup(key)
                ops.append(("exec_failing", key))
                d.fail_next = True
                try:
                    d.execute({k: v.copy() for k, v in inp.items()})
                    d.fail_next = False  # served from the cache: no run, no failure
                    if not hits:
                        ctx.violate("C05.outputs_equal_uncached", f"{sig} failing", f"execute at the new input {key} did not run the body; ops={ops}")
                except ValueError:
                    ctx.fire("discipline_run_raises")
                    d.execution_status.value = ExecutionStatus.Status.DONE
                    if hits and full_cache:
                        ctx.violate("C05.runs_once_per_input", sig, f"the body ran (and failed) for the stored input {key}; ops={ops}")
            elif op == 4 and policy != 0 and (stored or policy != 4):  # (HDF5Cache.clear() of a never-written node raises KeyError)
                ops.append(("clear",))
                d.cache.clear()
                stored = []
                jac_only.clear()
            elif op == 5 and policy == 4:
                ops.append(("reopen",))
                n_run = d.n_run
                SingleInstancePerFileAttribute.instances.clear()
                d = CDisc(sparse, inplace)
                d.n_run = n_run
                attach(d)
                ctx.fire("cache_reopened_from_file")
            elif op == 6 and policy in (1, 4):
                import pickle

                ops.append(("pickle_roundtrip",))
                n_run = d.n_run
                if policy == 4:
                    SingleInstancePerFileAttribute.instances.clear()
                d = pickle.loads(pickle.dumps(d))
                if d.n_run != n_run:
                    ctx.violate("C05.outputs_equal_uncached", sig + " pickle", "run counter changed across pickling")
                ctx.fire("serialise_and_continue")
            if nb is not None and t.flag(0.5, "neighbour_executes"):
                kk = t.choice(3, "neighbour_input")
                ninp = {"a": array([float(kk), 1.0]), "b": array([0.5 * kk])}
                runs0 = nb.n_run
                nout = nb.execute({n: v.copy() for n, v in ninp.items()})
                nexp = nb.f(ninp)
                if any(not array_equal(array(nout[o]), nexp[o]) for o in nexp):
                    ctx.violate("C05.outputs_equal_uncached", sig + " neighbour-node", f"the discipline caching under the other node of the file returned {dict(nout)} for {ninp}, expected {nexp}; ops={ops}")
                if (nb.n_run - runs0) != (0 if kk in nb_seen else 1):
                    ctx.violate("C05.runs_once_per_input", sig + " neighbour-node", f"the neighbour's body ran {nb.n_run - runs0} times for input {kk} (seen before: {kk in nb_seen}); ops={ops}")
                if kk not in nb_seen:
                    nb_seen.append(kk)
                if len(nb.cache) != len(nb_seen):
                    ctx.violate("C05.entries", sig + " neighbour-node", f"the neighbour's node holds {len(nb.cache)} entries, {len(nb_seen)} inputs were stored; ops={ops}")
            # invariant: number of entries == number of distinct stored inputs
            # (exact matching only: within a tolerance a Jacobian computed for a nearby input is
            # legitimately stored as an entry of its own, and the statement does not bound entries)
            if policy != 0 and d.cache is not None and not tol:
                n_entries = len(d.cache)
                exp_n = len(stored)
                if n_entries != exp_n:
                    ctx.violate("C05.entries", sig, f"cache holds {n_entries} entries, {exp_n} distinct inputs were stored ({stored}); ops={ops}")
    SingleInstancePerFileAttribute.instances.clear()
    ctx.event("ops", canon(ops))
    ctx.case((pname, tol, canon(ops)), nontrivial=repeated)
    ctx.sample = {"policy": pname, "tolerance": tol, "sparse": bool(sparse), "inplace_body": bool(inplace), "ops": [list(map(str, o)) for o in ops[:25]], "body_runs": d.n_run}
