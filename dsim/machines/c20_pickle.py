"""C20: serialise-and-continue at a tape-chosen moment of an object's life.

A catalogue of objects is built at run time (disciplines with each cache and grammar type,
chains, the MDA classes on a coupled system, scenarios, functions, design spaces, problems).
Each run picks one, drives a tape-chosen prefix of operations, sends the object across the
process boundary (pickle round trip in the process, to_pickle/from_pickle through a file, or a
real forked child that unpickles, continues and reports back), then continues with the same
suffix on the original and on the restored object and compares; finally mutates one side and
checks the other is unaffected.
"""

from __future__ import annotations

import os
import pickle

import numpy as np
from numpy import array

from ..core import canon

PROP = "C20"
NAME = "c20_pickle"
RUNS = {"quick": 1500, "thorough": 40000}
TIMEOUT = 300
CPU_LIMIT = 30
CHUNK = 20
RULE = (
    "each run picks one object of the run-time catalogue (discipline classes x cache type x grammar type, chains, 7 MDA classes, MDO/DOE "
    "scenarios, functions, design space, problem), a prefix of 0-4 executions/linearisations, the transport (pickle in process, to_pickle/"
    "from_pickle through a file, real fork: the child unpickles and continues) and a suffix of 1-3 operations run on both sides, then an "
    "isolation step; distinct by (object kind, prefix, transport, suffix); non-trivial when the prefix is not empty"
)
COMPONENTS_REAL = ["Serializable.__getstate__/__setstate__ of every catalogue class", "JSONGrammar/SimpleGrammar/Defaults pickling", "HDF5Cache re-attachment",
                   "gemseo.utils.pickle.to_pickle/from_pickle", "os.fork + pipe transport", "MDA/chain/scenario execution after restore"]
COMPONENTS_STUB = ["the caller (operation generator)", "harness disciplines where the factories need external tools"]
ASSUMPTIONS = [
    "iterative processes (MDAs, scenarios) are compared to 1e-6 relative (warm-start state may legitimately differ), plain disciplines/chains/functions bit-for-bit",
    "classes of the factories that need external tools, files or a GUI are not in the catalogue",
]


# ------------------------------------------------------------------------------------------
# catalogue
# ------------------------------------------------------------------------------------------
def _sellar():
    from gemseo.problems.mdo.sellar.sellar_1 import Sellar1
    from gemseo.problems.mdo.sellar.sellar_2 import Sellar2
    from gemseo.problems.mdo.sellar.sellar_system import SellarSystem

    return [Sellar1(), Sellar2(), SellarSystem()]


SELLAR_INPUTS = [
    {},
    {"x_1": array([2.0])},
    {"x_shared": array([1.5, 0.5])},
    {"x_1": array([0.5]), "x_2": array([1.0])},
]
XY_INPUTS = [{"x": array([1.0]), "z": array([0.5, 2.0])}, {"x": array([2.0]), "z": array([1.0, 1.0])}, {"x": array([-1.0]), "z": array([0.0, 3.0])}, {}]

MDA_NAMES = ["MDAJacobi", "MDAGaussSeidel", "MDANewtonRaphson", "MDAQuasiNewton", "MDAGSNewton", "MDAChain", "MDASequential"]
CACHES = ["none", "SimpleCache", "MemoryFullCache", "MemoryFullCache/local", "HDF5Cache"]
DISC_KINDS = ["Analytic", "AutoPy", "LinearCombination", "Splitter", "Concatenater", "HDisc", "Sellar1"]


def auto_py_f(x=1.0, z=array([0.0, 0.0])):  # noqa: B008
    y = 2.0 * x + z[0] * z[1]
    w = x - z[0]
    return y, w


def auto_py_df(x=1.0, z=array([0.0, 0.0])):  # noqa: B008
    return array([[2.0, z[1], z[0]], [1.0, -1.0, 0.0]])


_FACTORY = None
FACTORY_SKIP = {"XLSDiscipline", "DiscFromExe", "JobSchedulerDisciplineWrapper", "LSF", "SLURM"}  # external tools


def factory_catalogue():
    """Every class of the discipline factory that can be instantiated without argument and executed with its
    default inputs: [(class name, linearizable)] - discovered once per process, in name order."""
    global _FACTORY
    if _FACTORY is None:
        from gemseo.disciplines.factory import DisciplineFactory

        fac = DisciplineFactory()
        found = []
        for name in sorted(fac.class_names):
            if name in FACTORY_SKIP:
                continue
            try:
                d = fac.create(name)
                d.execute()
            except Exception:  # noqa: BLE001
                continue
            try:
                jac = d.linearize(compute_all_jacobians=True)
                # (a 10^4 x 10^4 sparse Jacobian cannot be compared densely: such a class is run execute-only)
                lin = all(int(np.prod(v.shape)) <= 10**6 for jo in jac.values() for v in jo.values())
                huge = not lin
            except Exception:  # noqa: BLE001
                lin = huge = False
            found.append((name, lin, huge))
        _FACTORY = found
    return _FACTORY


def warmup():
    factory_catalogue()


def build_discipline(t, ctx):
    from gemseo import create_discipline
    from gemseo.core.discipline import Discipline

    if t.flag(0.3, "factory_class"):
        # the quantifier: every discipline class of the factory that needs no external tool
        from gemseo.disciplines.factory import DisciplineFactory

        cat = factory_catalogue()
        name, lin, huge = cat[t.choice(len(cat), "factory_index")]
        cache = CACHES[t.weighted([3, 3, 0, 0, 2], "cache")]
        if huge and cache == "HDF5Cache":
            cache = "SimpleCache"  # (known finding F-C05-hdf5-large-sparse-jacobian: the original cannot even be executed)
        d = DisciplineFactory().create(name)
        base = {k: np.array(v, dtype=float, copy=True) for k, v in d.io.input_grammar.defaults.items() if isinstance(v, np.ndarray) and v.dtype.kind in "fi"}
        first = sorted(base)[0] if base else None
        inputs = [{}, {k: v * 1.01 for k, v in base.items()}, ({first: base[first] * 0.99} if first else {}), {k: v * 1.0 for k, v in base.items()}]
        if cache == "SimpleCache":
            d.set_cache("SimpleCache")
        elif cache == "HDF5Cache":
            d.set_cache("HDF5Cache", hdf_file_path=str(ctx.scratch / "c20_cache.h5"), hdf_node_path="n")
        else:
            d.set_cache(Discipline.CacheType.NONE)
        ctx.probe("factory_class_pickled")
        return d, inputs, f"discipline:factory:{name}/{cache}" + ("" if lin else "/exec-only"), "MDA" in name, cache

    if t.flag(0.2, "wrapper_class"):
        return build_wrapper(t, ctx)
    kind = t.pick(DISC_KINDS, "disc_kind")
    grammar = t.pick(["JSONGrammar", "SimpleGrammar", "PydanticGrammar"], "grammar")
    cache = CACHES[t.weighted([3, 3, 1, 1, 3], "cache")]  # (both MemoryFullCache variants end at a known finding)
    prev = Discipline.default_grammar_type
    Discipline.default_grammar_type = {"JSONGrammar": Discipline.GrammarType.JSON, "SimpleGrammar": Discipline.GrammarType.SIMPLE,
                                       "PydanticGrammar": Discipline.GrammarType.PYDANTIC}[grammar]
    try:
        if kind == "Analytic":
            d = create_discipline("AnalyticDiscipline", expressions={"y": "2*x+z-3*u+v**2+5*s*x", "w": "x**2-z"})
            inputs = [{"x": array([1.0]), "z": array([0.5]), "u": array([2.0]), "v": array([3.0]), "s": array([0.25])},
                      {"x": array([2.0]), "z": array([1.0]), "u": array([-1.0])}, {"x": array([-1.0]), "v": array([0.5]), "s": array([1.0])}, {}]
        elif kind == "AutoPy":
            d = create_discipline("AutoPyDiscipline", py_func=auto_py_f, py_jac=auto_py_df)
            inputs = [{"x": array([1.0]), "z": array([0.5, 2.0])}, {"x": array([2.0]), "z": array([1.0, 1.0])}, {"z": array([0.0, 3.0])}, {}]
        elif kind == "LinearCombination":
            d = create_discipline("LinearCombination", input_names=["a", "b"], output_name="c", input_coefficients={"a": 2.0, "b": -1.0}, offset=0.5, input_size=2)
            inputs = [{"a": array([1.0, 2.0]), "b": array([0.5, 0.5])}, {"a": array([0.0, 1.0]), "b": array([2.0, 3.0])}, {"a": array([3.0, 3.0])}, {}]
        elif kind == "Splitter":
            d = create_discipline("Splitter", input_name="v", output_names_to_input_indices={"v1": [0, 1], "v2": [2]})
            inputs = [{"v": array([1.0, 2.0, 3.0])}, {"v": array([0.0, -1.0, 5.0])}, {"v": array([2.0, 2.0, 2.0])}, {"v": array([9.0, 8.0, 7.0])}]
        elif kind == "Concatenater":
            d = create_discipline("Concatenater", input_variables=["p", "q"], output_variable="pq")
            inputs = [{"p": array([1.0]), "q": array([2.0, 3.0])}, {"p": array([0.0]), "q": array([1.0, 1.0])}, {"p": array([5.0]), "q": array([0.0, 0.0])}, {"p": array([2.0]), "q": array([2.0, 2.0])}]
        elif kind == "HDisc":
            from ..models import HDisc

            d = HDisc("H", ["a", "b"], ["y", "z"], {"a": 2, "b": 1, "y": 2, "z": 1}, salt=2)
            inputs = [{"a": array([1.0, 2.0]), "b": array([0.5])}, {"a": array([0.0, 1.0])}, {"b": array([2.0])}, {}]
        else:
            from gemseo.problems.mdo.sellar.sellar_1 import Sellar1

            d = Sellar1()
            inputs = SELLAR_INPUTS
    finally:
        Discipline.default_grammar_type = prev
    path = None
    # a cache tolerance is a setting like another: it travels with the object, and inputs within the tolerance of a
    # stored one (the last input of the list is the first one shifted by 1e-5) are served alike by both sides
    tol = 1e-3 if cache != "none" and t.flag(0.3, "cache_tolerance") else 0.0
    if tol and inputs[0]:
        inputs = [*inputs[:3], {k: np.array(v, dtype=float) + 1e-5 for k, v in inputs[0].items()}]
    if cache == "none":
        d.set_cache(Discipline.CacheType.NONE)
    elif cache == "SimpleCache":
        d.set_cache("SimpleCache", tolerance=tol)
    elif cache.startswith("MemoryFullCache"):
        d.set_cache("MemoryFullCache", tolerance=tol, is_memory_shared=cache == "MemoryFullCache")
    else:
        path = str(ctx.scratch / "c20_cache.h5")
        d.set_cache("HDF5Cache", tolerance=tol, hdf_file_path=path, hdf_node_path="n")
    return d, inputs, f"discipline:{kind}/{grammar}/{cache}", False, cache


WRAPPER_KINDS = ["Filtering", "Remapping", "Taylor", "Linear", "WarmStartedChain", "InitializationChain", "ConstraintAggregation", "ScenarioAdapter",
                 "Oscillator", "ArrayBased"]


def _array_f(x):
    return np.array([x[0] * x[1] + x[2], x[2] ** 2])


def _array_df(x):
    return np.array([[x[1], x[0], 1.0], [0.0, 0.0, 2 * x[2]]])


def _restriction(f):
    from gemseo.core.mdo_functions.function_restriction import FunctionRestriction

    return FunctionRestriction(array([1]), array([2.0]), 3, f)


def _linear_approximation(f):
    from gemseo.core.mdo_functions.taylor_polynomials import compute_linear_approximation

    return compute_linear_approximation(f, array([0.5, 1.0, -0.5]))


def _user_f(x):
    return np.array([x[0] * x[1] + x[2]])


def _user_df(x):
    return np.array([[x[1], x[0], 1.0]])


def build_wrapper(t, ctx):
    """Factory classes that wrap other disciplines or need arguments."""
    from gemseo import create_discipline
    from gemseo.core.discipline import Discipline
    from gemseo.problems.mdo.sellar.sellar_1 import Sellar1
    from gemseo.problems.mdo.sellar.sellar_2 import Sellar2

    kind = t.pick(WRAPPER_KINDS, "wrapper_kind")
    iterative = False
    inputs = []
    s1_inputs = [{"x_1": array([1.0]), "x_shared": array([2.0, 3.0]), "y_2": array([1.5])}, {"x_1": array([0.5])}, {"y_2": array([4.0]), "gamma": array([0.3])}, {}]
    if kind == "Filtering":
        d = create_discipline("FilteringDiscipline", discipline=Sellar1(), input_names=["x_1", "y_2"], keep_in=True)
        inputs = [{"x_1": array([1.0]), "y_2": array([1.5])}, {"x_1": array([0.5])}, {"y_2": array([4.0])}, {}]
    elif kind == "Remapping":
        # (wrapping Sellar1, whose Jacobian holds dia_matrix blocks, RemappingDiscipline.linearize raises TypeError with or
        # without pickling: an analytic discipline is wrapped half of the time so that Jacobians are compared too)
        if t.flag(0.5, "remap_sellar"):
            d = create_discipline("RemappingDiscipline", discipline=Sellar1(), input_mapping={"local": "x_1", "shared": "x_shared", "coupling": "y_2", "g": "gamma"}, output_mapping={"out": "y_1"})
        else:
            inner = create_discipline("AnalyticDiscipline", expressions={"y_1": "p**2+2*q-0.2*r*w"})
            inner.io.input_grammar.defaults.update({"p": array([1.0]), "q": array([0.5]), "r": array([1.0]), "w": array([0.2])})
            d = create_discipline("RemappingDiscipline", discipline=inner, input_mapping={"local": "p", "shared": "q", "coupling": "r", "g": "w"}, output_mapping={"out": "y_1"})
            inputs = None
        if inputs is None:
            inputs = [{"local": array([1.0]), "shared": array([2.0]), "coupling": array([1.5])}, {"local": array([0.5])}, {"coupling": array([4.0]), "g": array([0.3])}, {}]
        else:
            inputs = [{"local": array([1.0]), "shared": array([2.0, 3.0]), "coupling": array([1.5])}, {"local": array([0.5])}, {"coupling": array([4.0]), "g": array([0.3])}, {}]
    elif kind == "Taylor":
        d = create_discipline("TaylorDiscipline", discipline=Sellar1(), input_data={"x_1": array([0.5]), "x_shared": array([1.0, 2.0]), "y_2": array([2.0]), "gamma": array([0.2])})
        inputs = s1_inputs
    elif kind == "Linear":
        np.random.seed(20240 + t.choice(3, "matrix_seed"))  # (the sparse matrix is drawn from NumPy's global generator)
        d = create_discipline("LinearDiscipline", name="L", input_names=["a", "b"], output_names=["c", "d"], inputs_size=2, outputs_size=3,
                              matrix_format=t.pick(["dense", "csr"], "matrix_format"), matrix_density=0.6)
        inputs = [{"a": array([1.0, 2.0]), "b": array([0.5, -1.0])}, {"a": array([0.0, 1.0])}, {"b": array([2.0, 2.0])}, {}]
    elif kind == "WarmStartedChain":
        d = create_discipline("MDOWarmStartedChain", disciplines=[Sellar1(), Sellar2()], variable_names_to_warm_start=["y_2"])
        inputs = [{"x_1": array([1.0]), "x_2": array([0.5]), "x_shared": array([2.0, 3.0])}, {"x_1": array([0.5])}, {"x_shared": array([1.0, 1.0])}, {}]
    elif kind == "InitializationChain":
        d = create_discipline("MDOInitializationChain", disciplines=[Sellar1(), Sellar2()], available_data_names=["x_1", "x_2", "x_shared", "y_2", "gamma", "beta"])
        inputs = [{"x_1": array([1.0]), "x_2": array([0.5]), "x_shared": array([2.0, 3.0]), "y_2": array([1.5])}, {"x_1": array([0.5])}, {"y_2": array([4.0])}, {}]
    elif kind == "ConstraintAggregation":
        d = create_discipline("ConstraintAggregation", constraint_names=["g1", "g2"], aggregation_function=t.pick(["IKS", "lower_bound_KS", "upper_bound_KS", "POS_SUM", "MAX", "SUM"], "aggregation"))
        d.io.input_grammar.defaults.update({"g1": array([0.5, -1.0]), "g2": array([0.25])})
        inputs = [{"g1": array([1.0, 2.0]), "g2": array([0.5])}, {"g1": array([-1.0, 0.5])}, {"g2": array([3.0])}, {}]
    elif kind == "ScenarioAdapter":
        from gemseo import create_design_space, create_scenario
        from gemseo.disciplines.scenario_adapters.mdo_scenario_adapter import MDOScenarioAdapter

        ds = create_design_space()
        ds.add_variable("x_1", lower_bound=0.0, upper_bound=10.0, value=1.0)
        sub = create_discipline("AnalyticDiscipline", expressions={"obj": "(x_1-z)**2+z", "c": "x_1-3"})
        sc = create_scenario([sub], "obj", ds, formulation_name="DisciplinaryOpt", scenario_type="MDO")
        sc.set_algorithm(algo_name="SLSQP", max_iter=15)
        d = MDOScenarioAdapter(sc, ["z"], ["obj"], reset_x0_before_opt=t.flag(0.5, "reset_x0"), set_x0_before_opt=False)
        inputs = [{"z": array([1.0])}, {"z": array([2.5])}, {"z": array([0.5])}, {"z": array([4.0])}]
        iterative = True
    elif kind == "Oscillator":
        d = create_discipline("OscillatorDiscipline", omega=2.0, times=np.linspace(0.0, 1.0, 11))
        base = {k: np.array(v, dtype=float, copy=True) for k, v in d.io.input_grammar.defaults.items()}
        first = sorted(base)[0]
        inputs = [{}, {k: v + 0.25 for k, v in base.items()}, {first: base[first] + 1.0}, {k: v * 1.0 for k, v in base.items()}]
        iterative = True
    else:
        d = create_discipline("ArrayBasedFunctionDiscipline", function=_array_f, jac_function=_array_df, input_names_to_sizes={"p": 2, "q": 1}, output_names_to_sizes={"r": 1, "s": 1})
        d.io.input_grammar.defaults.update({"p": array([0.5, 1.5]), "q": array([2.0])})
        inputs = [{"p": array([1.0, 2.0]), "q": array([0.5])}, {"p": array([0.0, 1.0])}, {"q": array([3.0])}, {}]
    cache = CACHES[t.weighted([3, 3, 0, 0, 0], "cache")]
    if cache == "none":
        d.set_cache(Discipline.CacheType.NONE)
    else:
        d.set_cache("SimpleCache")
    ctx.probe("wrapper_class_pickled")
    return d, inputs, f"discipline:wrapper:{kind}/{cache}", iterative, cache


def build_process(t, ctx):
    from gemseo import create_mda
    from gemseo.core.chains.additive_chain import MDOAdditiveChain
    from gemseo.core.chains.chain import MDOChain
    from gemseo.core.chains.parallel_chain import MDOParallelChain

    k = t.weighted([2, 2, 1, 7], "process_kind")
    if k == 0:
        return MDOChain(_sellar()), SELLAR_INPUTS, "process:MDOChain", False, None
    if k == 1:
        from gemseo.problems.mdo.sellar.sellar_1 import Sellar1
        from gemseo.problems.mdo.sellar.sellar_2 import Sellar2

        return MDOParallelChain([Sellar1(), Sellar2()], use_threading=True), SELLAR_INPUTS, "process:MDOParallelChain", False, None
    if k == 2:
        from ..models import HDisc

        ds = [HDisc(f"A{i}", ["a"], [f"y{i}", "s"], {"a": 2, f"y{i}": 1, "s": 2}, salt=i) for i in range(2)]
        ins = [{"a": array([1.0, 2.0])}, {"a": array([0.0, 1.0])}, {"a": array([-1.0, 0.5])}, {}]
        return MDOAdditiveChain(ds, outputs_to_sum=["s"], use_threading=True), ins, "process:MDOAdditiveChain", False, None
    name = t.pick(MDA_NAMES, "mda")
    ds = _sellar()
    if name in ("MDANewtonRaphson", "MDAQuasiNewton", "MDAGSNewton", "MDASequential"):
        ds = ds[:2]  # Newton-type MDAs do not support weakly coupled disciplines
    if name == "MDASequential":
        mda = create_mda(name, ds, mda_sequence=[create_mda("MDAJacobi", ds, max_mda_iter=2, n_processes=1), create_mda("MDANewtonRaphson", ds)])
    elif name == "MDAJacobi":
        mda = create_mda(name, ds, n_processes=1)
    else:
        mda = create_mda(name, ds)
    return mda, SELLAR_INPUTS, f"process:{name}", True, None


# ------------------------------------------------------------------------------------------
# transport
# ------------------------------------------------------------------------------------------
def send(obj, transport, ctx):
    """Return the restored object (in this process)."""
    if transport == 0:
        return pickle.loads(pickle.dumps(obj))
    from gemseo.utils.pickle import from_pickle, to_pickle

    p = ctx.scratch / "obj.pkl"
    to_pickle(obj, p)
    return from_pickle(p)


def in_child(blob, fn):
    """Unpickle ``blob`` in a real forked child, apply ``fn`` and ship the (picklable) result back."""
    r, w = os.pipe()
    pid = os.fork()
    if pid == 0:
        try:
            os.close(r)
            try:
                res = ("ok", fn(pickle.loads(blob)))
            except BaseException as exc:  # noqa: BLE001
                res = ("exc", repr(exc))
            data = pickle.dumps(res)
            with os.fdopen(w, "wb") as f:
                f.write(data)
        finally:
            os._exit(0)
    os.close(w)
    with os.fdopen(r, "rb") as f:
        data = f.read()
    os.waitpid(pid, 0)
    return pickle.loads(data)


def child_discipline(req):
    c = pickle.loads(req["blob"])
    out = [safe_op(c, op, req["inputs"]) for op in req["suffix"]]
    return out, grammar_view(c), c.execution_statistics.n_executions


class FileRecorder:
    """A user's database listener (picklable): appends one line per notification to a file."""

    def __init__(self, path, tag):
        self.path, self.tag = path, tag

    def __call__(self, x):
        with open(self.path, "a") as f:
            f.write(self.tag + "\n")

    @staticmethod
    def count(path):
        try:
            with open(path) as f:
                return sum(1 for _ in f)
        except FileNotFoundError:
            return 0


def problem_view(prob, xe):
    """What a user sees of a (restored) problem: the recorded history by look-up, counters, a replayed evaluation."""
    db = prob.database
    name = prob.objective.name
    xs = [np.array(x, copy=True) for x in db.get_x_vect_history()]
    look = [(bool(x in db), canon(db.get_function_value(name, x)), canon(db.get_function_value(name, i + 1))) for i, x in enumerate(xs)]
    n_before = len(db)
    calls_before = getattr(prob.objective, "n_calls", None)
    prob.evaluation_counter.maximum = 10**6
    v = canon(prob.objective.evaluate(np.array(xe, copy=True)))
    replay = None
    if xs and prob.objective.__class__.__name__ == "ProblemFunction":
        # an already recorded point is served from the history: no new entry
        x0 = xs[0]
        x0 = prob.design_space.normalize_vect(x0) if prob.objective.expects_normalized_inputs else x0
        prob.objective.evaluate(x0)
        replay = len(db)
    # the user's listeners travel with the problem: a new point notifies them as it does on the original
    notified = None
    rec_path = getattr(prob, "_c20_recorder_path", None)
    if rec_path is not None and prob.objective.__class__.__name__ == "ProblemFunction":
        n0 = FileRecorder.count(rec_path)
        xnew = np.array(xe, dtype=float, copy=True) * 0.5 + 0.123
        prob.objective.evaluate(xnew)
        notified = FileRecorder.count(rec_path) - n0
    return {"n": n_before, "lookups": look, "counter": prob.evaluation_counter.current, "value": v, "entries_after_replay": replay,
            "points": canon(xs), "listeners_notified_by_a_new_point": notified}


def child_problem(req):
    return problem_view(pickle.loads(req["blob"]), req["xe"])


def in_fresh_interpreter(ctx, blob, suffix, inputs, hash_seed, **more):
    """Unpickle ``blob`` in a new interpreter started with another hash seed, run ``suffix`` there."""
    import subprocess
    import sys

    from ..core import Inconclusive

    req, rep = ctx.scratch / "req.pkl", ctx.scratch / "rep.pkl"
    with open(req, "wb") as f:
        pickle.dump({"blob": blob, "suffix": suffix, "inputs": inputs, **more}, f)
    env = {**os.environ, "PYTHONHASHSEED": str(hash_seed)}
    try:
        cp = subprocess.run([sys.executable, os.path.join(os.path.dirname(os.path.abspath(__file__)), "_c20_child.py"), str(req), str(rep)],
                            env=env, capture_output=True, text=True, timeout=300)
    except subprocess.TimeoutExpired as exc:
        raise Inconclusive("the other interpreter did not answer in 300 s") from exc
    if not rep.exists():
        raise RuntimeError(f"the other interpreter wrote no reply (rc={cp.returncode}): {cp.stderr[-1500:]}")
    with open(rep, "rb") as f:
        return pickle.load(f)


def snap(d):
    return {k: np.array(v, copy=True) if isinstance(v, np.ndarray) else v for k, v in dict(d).items()}


def same_data(a, b, rtol):
    if set(a) != set(b):
        return f"names differ: {sorted(a)} vs {sorted(b)}"
    for k in a:
        va, vb = a[k], b[k]
        if isinstance(va, np.ndarray) or isinstance(vb, np.ndarray):
            va, vb = np.asarray(va), np.asarray(vb)
            if va.shape != vb.shape:
                return f"{k}: shapes {va.shape} vs {vb.shape}"
            if rtol:
                if not np.allclose(va, vb, rtol=rtol, atol=rtol):
                    return f"{k}: {va} vs {vb}"
            elif not np.array_equal(va, vb):
                return f"{k}: {va} vs {vb}"
        elif va != vb:
            return f"{k}: {va!r} vs {vb!r}"
    return None


def dense(v):
    return v.toarray() if hasattr(v, "toarray") else np.asarray(v)


def same_jac(a, b, rtol):
    if set(a) != set(b):
        return f"outputs differ: {sorted(a)} vs {sorted(b)}"
    for o in a:
        if set(a[o]) != set(b[o]):
            return f"{o}: inputs differ"
        for i in a[o]:
            x, y = dense(a[o][i]), dense(b[o][i])
            if x.shape != y.shape or not (np.allclose(x, y, rtol=rtol, atol=rtol) if rtol else np.array_equal(x, y)):
                return f"d{o}/d{i}: {x} vs {y}"
    return None


def grammar_view(d):
    ig, og = d.io.input_grammar, d.io.output_grammar
    return {
        "in": sorted(ig.names), "out": sorted(og.names), "req_in": sorted(ig.required_names), "req_out": sorted(og.required_names),
        "defaults": canon({k: v for k, v in ig.defaults.items()}), "gtype": type(ig).__name__,
        "cache": None if getattr(d, "cache", None) is None else (type(d.cache).__name__, repr(float(d.cache.tolerance))),
    }


def safe_op(d, op, inputs):
    """``do_op``; what the object raises is part of its behaviour (some factory classes cannot be linearized at
    all): original and restored objects must then raise alike."""
    try:
        return do_op(d, op, inputs)
    except RuntimeError as exc:
        if "Failed to cache dataset" in str(exc):
            raise
        return ("raised", {"type": type(exc).__name__})
    except Exception as exc:  # noqa: BLE001
        return ("raised", {"type": type(exc).__name__})


def do_op(d, op, inputs):
    kind, k = op
    if kind == "make_optional":
        # grammar edit: the k-th required input that has a default value becomes optional
        g = d.io.input_grammar
        names = sorted(n for n in g.required_names if n in g.defaults)
        if names:
            g.required_names.remove(names[k % len(names)])
        return ("edit", {})
    if kind == "fd_mode":
        # approximate the Jacobian by finite differences with a non-default step (a setting that must survive)
        d.set_jacobian_approximation(jac_approx_type="finite_differences", jax_approx_step=[1e-2, 1e-3, 5e-2][k % 3])
        d.linearization_mode = "finite_differences"
        return ("edit", {})
    if kind == "set_default":
        g = d.io.input_grammar
        names = sorted(n for n, v in g.defaults.items() if isinstance(v, np.ndarray) and v.size)
        if names:
            n = names[k % len(names)]
            g.defaults[n] = np.array(g.defaults[n], dtype=float, copy=True) + 0.25
        return ("edit", {})
    inp = {n: np.array(v, copy=True) for n, v in inputs[k].items()}
    if kind == "exec_bad":
        # data of the wrong type: the restored object validates (and rejects) what the original validates (wave 11, C20k)
        inp[sorted(inp)[0]] = "not-an-array"
        return ("data", snap(d.execute(inp)))
    if kind == "exec":
        return ("data", snap(d.execute(inp)))
    jac = d.linearize(inp, compute_all_jacobians=True)
    return ("jac", {o: {i: dense(v).copy() for i, v in jo.items()} for o, jo in jac.items()})


def run(ctx):
    t = ctx.tape
    family = t.weighted([6, 4, 3, 3], "family")
    if family == 0:
        run_discipline_like(ctx, *build_discipline(t, ctx))
    elif family == 1:
        run_discipline_like(ctx, *build_process(t, ctx))
    elif family == 2:
        run_scenario(ctx)
    else:
        run_functions(ctx)


def run_discipline_like(ctx, d, inputs, label, iterative, cache):
    from gemseo.utils.singleton import SingleInstancePerFileAttribute

    t = ctx.tape
    rtol = 1e-6 if iterative else 0.0
    cache_tol = float(getattr(d.cache, "tolerance", 0.0) or 0.0) if d.cache is not None else 0.0
    if cache_tol:
        # within its tolerance a cache may serve the data of a neighbouring stored input, or compute for the given one:
        # which one depends on what either side stored before (a file cache is shared by both sides)
        rtol = max(rtol, 10 * cache_tol)
    n_pre = t.randint(0, 4, "n_prefix")
    prefix = [(t.pick(["exec", "lin", "exec", "lin", "make_optional", "set_default", "fd_mode"], f"pre_kind[{i}]"), t.choice(len(inputs), f"pre_in[{i}]")) for i in range(n_pre)]
    if iterative or label.startswith(("process:", "discipline:factory:", "discipline:wrapper:")):
        prefix = [(("exec" if kd == "fd_mode" else kd), k) for kd, k in prefix]  # (approximation settings: plain disciplines only)
    exec_only = label.endswith("/exec-only")
    if exec_only:
        prefix = [(("exec" if kd == "lin" else kd), k) for kd, k in prefix]
    if any(kd == "fd_mode" for kd, _ in prefix):
        suffix_force_lin = True
    else:
        suffix_force_lin = False
    transport = t.weighted([8, 4, 6, 2], "transport")
    other_seed = 1 + t.choice(40, "other_hash_seed") if transport == 3 else None
    n_suf = t.randint(1, 3, "n_suffix")
    suffix = [(t.pick(["exec", "lin"], f"suf_kind[{i}]"), t.choice(len(inputs), f"suf_in[{i}]")) for i in range(n_suf)]
    if suffix_force_lin:
        suffix = [("lin", k) for _, k in suffix]
    if exec_only:
        suffix = [("exec", k) for _, k in suffix]
    if inputs[0] and label.startswith("discipline:") and t.flag(0.25, "suffix_ends_with_invalid_input"):
        suffix.append(("exec_bad", 0))
        ctx.probe("invalid_input_given_to_original_and_restored")
    sig = label
    tname = ["pickle", "to_pickle-file", "fork", "other-interpreter"][transport]
    ctx.event("cfg", label, canon(prefix), tname, canon(suffix))
    try:
        for op in prefix:
            do_op(d, op, inputs)
    except NotImplementedError:
        # a discipline without analytic Jacobian: restrict the run to executions
        prefix = [(kd if kd in ("make_optional", "set_default", "fd_mode") else "exec", k) for kd, k in prefix]
        suffix = [("exec", k) for _, k in suffix]
    except Exception as exc:  # noqa: BLE001
        if not label.startswith(("discipline:factory:", "discipline:wrapper:")):
            raise
        # what an original factory discipline does before any pickling is not C20's subject (e.g. DensityFilter
        # cannot store its 10^4 x 10^4 sparse Jacobian in an HDF5 cache): the run ends here
        ctx.probe(f"original_raised_before_pickling[{label.split(':')[2].split('/')[0]}:{type(exc).__name__}]")
        ctx.event("original_raised", type(exc).__name__)
        ctx.case((label, "original raised"), nontrivial=False)
        return
    g0 = grammar_view(d)
    n_exec0 = d.execution_statistics.n_executions
    cache_len0 = len(d.cache) if d.cache is not None else None
    ctx.fire("serialise_" + tname)
    try:
        blob = pickle.dumps(d)
    except Exception as exc:  # noqa: BLE001
        psig = f"cache={cache} dumps raised={type(exc).__name__}" if cache and cache.startswith("MemoryFullCache") else f"{sig} dumps raised={type(exc).__name__}"
        ctx.violate("C20.picklable", psig, f"pickle.dumps of {label} after prefix {prefix} raised {exc!r}")
    if transport >= 2:
        def child(c):
            out = [safe_op(c, op, inputs) for op in suffix]
            return out, grammar_view(c), c.execution_statistics.n_executions

        if transport == 2:
            status, res = in_child(blob, child)
        else:
            # a restart in another interpreter: nothing of this process survives but the bytes (hash seed included)
            status, res = in_fresh_interpreter(ctx, blob, suffix, inputs, other_seed)
            ctx.probe("restored_under_another_hash_seed")
        if status != "ok":
            ctx.violate("C20.behaves_like_original", f"{sig} {tname} raised", f"restored {label} raised in the child: {res}; prefix={prefix} suffix={suffix}")
        got, g1, n_exec_child = res
        try:
            exp = [safe_op(d, op, inputs) for op in suffix]
        except RuntimeError as exc:
            if cache == "HDF5Cache" and "Failed to cache dataset" in str(exc):
                ctx.violate("C20.behaves_like_original", "cache=HDF5Cache original-and-restored-interleaved raised=RuntimeError",
                            f"{label}: after the restored object (in a forked child) stored new entries in the shared file, the original discipline raised {exc!r}; prefix={prefix} suffix={suffix}")
            raise
        c = None
    else:
        if cache == "HDF5Cache" and t.flag(0.5, "fresh_registry"):
            SingleInstancePerFileAttribute.instances.clear()
        try:
            c = send(d, transport, ctx)
        except Exception as exc:  # noqa: BLE001
            ctx.violate("C20.picklable", f"{sig} loads raised={type(exc).__name__}", f"restoring {label} raised {exc!r}")
        g1 = grammar_view(c)
        if c.execution_statistics.n_executions != n_exec0:
            ctx.violate("C20.counters_as_values", sig, f"n_executions {n_exec0} before pickling, {c.execution_statistics.n_executions} after restoring")
        if cache_len0 is not None and (c.cache is None or len(c.cache) != cache_len0):
            ctx.violate("C20.behaves_like_original", sig + " cache", f"cache length {cache_len0} before pickling, {None if c.cache is None else len(c.cache)} after")
        exp = []
        got = []
        for op in suffix:
            for side, obj, acc in (("original", d, exp), ("restored", c, got)):
                try:
                    acc.append(safe_op(obj, op, inputs))
                except RuntimeError as exc:
                    if cache == "HDF5Cache" and "Failed to cache dataset" in str(exc):
                        ctx.violate("C20.behaves_like_original", "cache=HDF5Cache original-and-restored-interleaved raised=RuntimeError",
                                    f"{label}: after the other object stored a new entry in the shared file, the {side} discipline raised {exc!r} for {op} (its hash index is not re-read); prefix={prefix} suffix={suffix}")
                    raise
    if g1 != g0:
        gsig = label.split("/")[0] + ("/" + label.split("/")[1] if "/" in label else "")
        ctx.violate("C20.same_grammars", gsig + (" after-grammar-edit" if any(kd in ("make_optional", "set_default", "fd_mode") for kd, _ in prefix) else ""),
                    f"grammars/defaults differ after restoring {label} (prefix {prefix}, via {tname}): {g0} vs {g1}")
    for op, (ke, ve), (kg, vg) in zip(suffix, exp, got):
        if ke == "edit":
            continue
        if "raised" in (ke, kg):
            if ke != kg or ve != vg:
                ctx.violate("C20.behaves_like_original", sig + f" {op[0]} raises", f"{op} after prefix {prefix} via {tname}: original -> {ke} {ve if ke == 'raised' else ''}, restored -> {kg} {vg if kg == 'raised' else ''}")
            ctx.probe("original_and_restored_raise_alike")
            continue
        diff = same_data(ve, vg, rtol) if ke == "data" else same_jac(ve, vg, rtol)
        if diff:
            ctx.violate("C20.behaves_like_original", sig + f" {op[0]}", f"{op} after prefix {prefix} via {tname}: original and restored differ: {diff}")
    ctx.event("suffix", canon([(k, v if k != "jac" else {o: dict(jo) for o, jo in v.items()}) for k, v in got]))
    if any(k == "raised" for k, _ in exp):
        # (after a failure the status of both objects is FAILED: no isolation step)
        SingleInstancePerFileAttribute.instances.clear()
        ctx.case((label, canon(prefix), tname, canon(suffix)), nontrivial=bool(prefix))
        return
    # isolation
    if c is not None:
        n_o = d.execution_statistics.n_executions
        len_o = len(d.cache) if d.cache is not None else None
        data_o = snap(d.io.data)
        defaults_o = canon(dict(d.io.input_grammar.defaults))
        new_inp = {n: np.array(v, copy=True) + 7.0 for n, v in inputs[0].items()}
        try:
            c.execute(new_inp)
        except Exception:  # noqa: BLE001
            pass
        for n, v in c.io.input_grammar.defaults.items():
            if isinstance(v, np.ndarray) and v.size and v.flags.writeable:
                v[...] = v + 1.0
                break
        if d.execution_statistics.n_executions != n_o:
            ctx.violate("C20.isolation", sig + " counter", "executing the restored object changed the original's execution counter")
        if cache in ("SimpleCache", "MemoryFullCache", "MemoryFullCache/local") and d.cache is not None and len(d.cache) != len_o:
            ctx.violate("C20.isolation", sig + " cache", "executing the restored object changed the original's in-memory cache")
        if same_data(snap(d.io.data), data_o, 0.0):
            ctx.violate("C20.isolation", sig + " data", "executing the restored object changed the original's local data")
        if canon(dict(d.io.input_grammar.defaults)) != defaults_o:
            ctx.violate("C20.isolation", sig + " defaults", "editing the restored object's default inputs changed the original's")
        if cache == "HDF5Cache" and new_inp:
            # a file cache stays attached to its file: the entry written by the copy is on file
            SingleInstancePerFileAttribute.instances.clear()
            from gemseo.caches.hdf5_cache import HDF5Cache

            n_file = len(HDF5Cache(hdf_file_path=str(ctx.scratch / "c20_cache.h5"), hdf_node_path="n"))
            if n_file < (len_o or 0):
                ctx.violate("C20.file_cache_attached", sig, f"HDF5 file holds {n_file} entries, the original cache had {len_o}")
    SingleInstancePerFileAttribute.instances.clear()
    ctx.case((label, canon(prefix), tname, canon(suffix)), nontrivial=bool(prefix))
    ctx.sample = {"object": label, "prefix": [list(p) for p in prefix], "transport": tname, "suffix": [list(s) for s in suffix]}


def scenario_view(sc):
    """Settings and state of a scenario that a user can read (compared between original and restored)."""
    p = sc.formulation.optimization_problem
    ds = p.design_space
    v = {
        "variables": list(ds.variable_names),
        "bounds": canon([ds.get_lower_bounds(), ds.get_upper_bounds()]),
        "current": canon({k: np.asarray(x).real for k, x in ds.get_current_value(as_dict=True).items()}) if ds.has_current_value else None,
        "differentiation": (str(p.differentiation_method), repr(float(p.differentiation_step))),
        "functions": [(f.name, str(f.f_type), f.dim) for f in [p.objective, *p.constraints, *p.observables]],
        "minimize": bool(p.minimize_objective),
        "tolerances": (repr(float(p.tolerances.equality)), repr(float(p.tolerances.inequality))),
        "disciplines": [d.name for d in sc.disciplines],
        "formulation": type(sc.formulation).__name__,
        "clear_history_before_execute": bool(sc.clear_history_before_execute),
    }
    r = sc.optimization_result
    v["result"] = None if r is None else (canon(r.x_opt), canon(r.f_opt), bool(r.is_feasible), r.optimum_index, r.n_obj_call, str(r.optimizer_name), str(r.message)[:60])
    mda = getattr(sc.formulation, "mda", None)
    if mda is not None:
        st = mda.settings.model_dump()
        v["mda"] = (type(mda).__name__, canon({k: (str(x) if not isinstance(x, (int, float, bool, type(None))) else x) for k, x in st.items() if k != "coupling_structure"}),
                    len(mda.residual_history))
    return v


def run_scenario(ctx):
    from gemseo import create_scenario
    from gemseo.problems.mdo.sellar.sellar_design_space import SellarDesignSpace

    t = ctx.tape
    kind = t.pick(["MDO", "DOE"], "scenario_type")
    formulation = t.pick(["MDF", "IDF", "DisciplinaryOpt"], "formulation")
    if formulation == "DisciplinaryOpt":
        from gemseo import create_design_space

        from ..models import HDisc

        ds = create_design_space()
        ds.add_variable("a", size=2, lower_bound=-2.0, upper_bound=2.0, value=array([1.0, -1.0]))
        discs = [HDisc("H", ["a"], ["y", "z"], {"a": 2, "y": 1, "z": 1}, salt=1)]
        sc = create_scenario(discs, "y", ds, formulation_name="DisciplinaryOpt", scenario_type=kind)
        sc.add_constraint("z", constraint_type="ineq")
    else:
        kw = {"main_mda_name": "MDAGaussSeidel"} if formulation == "MDF" else {}
        if formulation == "MDF" and t.flag(0.5, "non_default_mda_settings"):
            kw["main_mda_settings"] = {"tolerance": 1e-8, "max_mda_iter": 7, "over_relaxation_factor": 0.9, "warm_start": True}
        sc = create_scenario(_sellar(), "obj", SellarDesignSpace(), formulation_name=formulation, scenario_type=kind, **kw)
        sc.add_constraint("c_1", constraint_type="ineq")
        sc.add_constraint("c_2", constraint_type="ineq")
    if kind == "MDO":
        algo = t.pick(["SLSQP", "NLOPT_COBYLA"], "algo")
        first = {"algo_name": algo, "max_iter": t.randint(2, 5, "iter_1")}
        second = {"algo_name": algo, "max_iter": t.randint(3, 8, "iter_2")}
    else:
        if t.flag(0.5, "stochastic_doe_default_seed"):
            # no explicit seed: the library draws its next default seed, which must carry over as a value
            algo = t.pick(["OT_MONTE_CARLO", "PYDOE_LHS", "LHS"], "doe_algo")
            first = {"algo_name": algo, "n_samples": t.randint(2, 5, "n_1")}
            second = {"algo_name": algo, "n_samples": t.randint(2, 5, "n_2")}
        else:
            first = {"algo_name": "PYDOE_FULLFACT", "n_samples": t.randint(2, 5, "n_1")}
            second = {"algo_name": "PYDOE_LHS", "n_samples": t.randint(2, 5, "n_2"), "random_state": 3}
    if t.flag(0.4, "non_default_problem_settings"):
        # settings a user may have changed: they travel with the scenario
        sc.set_differentiation_method("finite_differences", 1e-5)
        sc.formulation.optimization_problem.tolerances.inequality = 1e-3
        sc.clear_history_before_execute = False
    moment = t.weighted([1, 3], "moment")  # 0: fresh, 1: after a first execution
    transport = t.weighted([4, 2], "transport")
    label = f"scenario:{kind}/{formulation}"
    ctx.event("cfg", label, canon(first), canon(second), moment, transport)
    if moment == 1:
        sc.execute(**first)
    p = sc.formulation.optimization_problem
    n_db = len(p.database)
    counter = p.evaluation_counter.current
    ctx.fire("serialise_" + ["pickle", "to_pickle-file"][transport])
    try:
        c = send(sc, transport, ctx)
    except Exception as exc:  # noqa: BLE001
        ctx.violate("C20.picklable", f"{label} raised={type(exc).__name__}", f"pickling {label} ({'executed' if moment else 'fresh'}) raised {exc!r}")
    pc = c.formulation.optimization_problem
    v0, v1 = scenario_view(sc), scenario_view(c)
    if v0 != v1:
        diff = [k for k in v0 if v0[k] != v1.get(k)]
        ctx.violate("C20.same_grammars", label + " settings", f"settings/state differ after restoring the scenario ({'executed' if moment else 'fresh'}): " + "; ".join(f"{k}: {v0[k]} -> {v1.get(k)}" for k in diff[:4]))
    if len(pc.database) != n_db or pc.evaluation_counter.current != counter:
        ctx.violate("C20.counters_as_values", label, f"database/counter {n_db}/{counter} before, {len(pc.database)}/{pc.evaluation_counter.current} after restoring")
    if pc.database is p.database:
        ctx.violate("C20.isolation", label + " database", "the restored scenario shares its database with the original")
    sc.execute(**second)
    c.execute(**second)
    r1, r2 = sc.optimization_result, c.optimization_result
    ctx.event("res", canon(r1.x_opt), canon(r1.f_opt), len(p.database))
    k1 = [tuple(x.wrapped_array.tolist()) for x in p.database.keys()]
    k2 = [tuple(x.wrapped_array.tolist()) for x in pc.database.keys()]
    if k1 != k2 and kind == "DOE":
        ctx.violate("C20.behaves_like_original", label + " samples", f"after the same second execution original and restored scenario evaluated different points: {k1[-3:]} vs {k2[-3:]}")
    if len(p.database) != len(pc.database):
        ctx.violate("C20.behaves_like_original", label + " database", f"after the same second execution the databases hold {len(p.database)} and {len(pc.database)} entries")
    if not np.allclose(r1.x_opt, r2.x_opt, rtol=1e-6, atol=1e-8) or not np.allclose(r1.f_opt, r2.f_opt, rtol=1e-6, atol=1e-8) or r1.is_feasible != r2.is_feasible:
        ctx.violate("C20.behaves_like_original", label + " result", f"results differ: x {r1.x_opt} vs {r2.x_opt}; f {r1.f_opt} vs {r2.f_opt}")
    # isolation: a third execution of the copy only
    n_o = len(p.database)
    c.execute(**{**second, **({"max_iter": second["max_iter"] + 3} if kind == "MDO" else {"n_samples": 7})})
    if len(p.database) != n_o:
        ctx.violate("C20.isolation", label + " database", "executing the restored scenario added entries to the original's database")
    ctx.case((label, canon(first), canon(second), moment, transport), nontrivial=moment == 1)
    ctx.sample = {"object": label, "moment": ["fresh", "after first execution"][moment], "first": str(first), "second": str(second)}


def run_functions(ctx):
    from gemseo.algos.design_space import DesignSpace
    from gemseo.algos.optimization_problem import OptimizationProblem
    from gemseo.core.mdo_functions.mdo_function import MDOFunction
    from gemseo.core.mdo_functions.mdo_linear_function import MDOLinearFunction
    from gemseo.core.mdo_functions.mdo_quadratic_function import MDOQuadraticFunction
    from gemseo.problems.optimization.power_2 import Power2
    from gemseo.problems.optimization.rosenbrock import Rosenbrock

    t = ctx.tape
    k = t.choice(5, "kind")
    transport = t.weighted([4, 2], "transport")
    pts = [array([0.5, 1.0, -0.5]), array([1.0, 1.0, 1.0]), array([-1.0, 0.25, 2.0])]
    if k in (0, 1, 2):
        if k == 0:
            f = MDOLinearFunction(array([[1.0, 2.0, 3.0], [0.0, -1.0, 1.0]]), "lin", value_at_zero=array([0.5, 1.0]))
            label = "function:MDOLinearFunction"
        elif k == 1:
            f = MDOQuadraticFunction(array([[1.0, 0.0, 0.5], [0.0, 2.0, 0.0], [0.5, 0.0, 3.0]]), "quad", linear_coeffs=array([1.0, -1.0, 0.0]), value_at_zero=0.25)
            label = "function:MDOQuadraticFunction"
        else:
            lin = MDOLinearFunction(array([[1.0, 2.0, 3.0]]), "a")
            quad = MDOQuadraticFunction(array([[1.0, 0.0, 0.0], [0.0, 1.0, 0.0], [0.0, 0.0, 1.0]]), "b")
            user = MDOFunction(_user_f, "u", jac=_user_df, expr="x0*x1+x2", input_names=["x"], f_type="obj", output_names=["u"])
            variant = t.choice(9, "algebra_variant")
            f = [
                lambda: lin + quad * 2.0 - 1.0,
                lambda: -user,
                lambda: user.offset(2.5),
                lambda: user * quad,
                lambda: user / (quad + 1.0),
                lambda: _restriction(user),
                lambda: _linear_approximation(user),
                lambda: quad - user * 3.0 + lin,
                lambda: user,
            ][variant]()
            label = f"function:algebra[{variant}]"
            if variant == 5:
                pts = [array([0.5, -0.5]), array([1.0, 1.0]), array([-1.0, 2.0])]
        n_pre = t.randint(0, 2, "n_prefix")
        for i in range(n_pre):
            f.evaluate(pts[i])
        ctx.event("cfg", label, n_pre, transport)
        ctx.fire("serialise_" + ["pickle", "to_pickle-file"][transport])
        try:
            g = send(f, transport, ctx)
        except Exception as exc:  # noqa: BLE001
            ctx.violate("C20.picklable", f"{label} raised={type(exc).__name__}", f"pickling {label} raised {exc!r}")
        for x in pts:
            if not np.array_equal(np.asarray(f.evaluate(x)), np.asarray(g.evaluate(x))) or not np.array_equal(dense(f.jac(x)), dense(g.jac(x))):
                ctx.violate("C20.behaves_like_original", label, f"restored function differs at {x}")
        view = lambda h: (h.name, h.f_type, list(h.input_names), h.dim, h.expr, list(h.output_names), h.has_jac, str(h.special_repr), h.force_real)  # noqa: E731
        if view(g) != view(f):
            ctx.violate("C20.behaves_like_original", label + " attributes", f"attributes differ after restoring: {view(f)} -> {view(g)}")
        ctx.case((label, n_pre, transport), nontrivial=n_pre > 0)
        ctx.sample = {"object": label, "prefix_evaluations": n_pre}
        return
    if k == 3:
        ds = DesignSpace()
        ds.add_variable("x", size=2, lower_bound=array([-1.0, -np.inf]), upper_bound=array([2.0, 3.0]), value=array([0.5, 1.0]))
        ds.add_variable("long_name", size=1, type_="integer", lower_bound=0, upper_bound=5)
        ds.add_variable("y", size=1)
        if t.flag(0.5, "queried"):
            ds.normalize_vect(array([0.5, 1.0, 2.0, 0.0]))  # fills the internal caches
        ctx.fire("serialise_" + ["pickle", "to_pickle-file"][transport])
        c = send(ds, transport, ctx)
        if c != ds or c.variable_names != ds.variable_names or not np.array_equal(c.get_lower_bounds(), ds.get_lower_bounds()):
            ctx.violate("C20.behaves_like_original", "design_space", "restored design space differs")

        def ds_view(space, bounded):
            """Settings and behaviour a user can read: flags, normalisation before and after a bound change, a DOE."""
            from gemseo.algos.doe.factory import DOELibraryFactory

            v = {"integer_normalization": bool(space.enable_integer_variables_normalization),
                 "policies": canon({n: list(map(bool, space.normalize[n])) for n in space.variable_names})}
            pt = array([0.5, 1.0, 2.0, 0.0])
            v["normalized"] = canon(space.normalize_vect(pt))
            v["grad"] = canon(space.normalize_grad(pt))
            if bounded:
                try:
                    v["doe"] = canon(DOELibraryFactory().create("PYDOE_FULLFACT").compute_doe(space, n_samples=8))
                except Exception as exc:  # noqa: BLE001
                    v["doe"] = f"{type(exc).__name__}: {exc}"[:120]
            return v

        bounded = t.flag(0.5, "all_variables_bounded")
        pair = (ds, c)
        if bounded:
            # a fully bounded copy of both spaces (what a DOE needs); the bound change also re-computes the policies
            for space in pair:
                space.set_lower_bound("x", array([-1.0, -4.0]))
                space.set_lower_bound("y", array([-1.0]))
                space.set_upper_bound("y", array([1.0]))
        v0, v1 = ds_view(ds, bounded), ds_view(c, bounded)
        if v0 != v1:
            diff = [k_ for k_ in v0 if v0[k_] != v1[k_]]
            ctx.violate("C20.behaves_like_original", "design_space settings", f"original and restored design spaces differ in {diff}: " + "; ".join(f"{k_}: {v0[k_]} -> {v1[k_]}" for k_ in diff[:3]))
        c.set_current_value({"x": array([0.0, 0.0]), "long_name": array([1]), "y": array([0.0])})
        if np.array_equal(ds.get_current_value(["x"]), array([0.0, 0.0])):
            ctx.violate("C20.isolation", "design_space", "editing the restored design space changed the original")
        ctx.case(("design_space", transport), nontrivial=True)
        ctx.sample = {"object": "design_space"}
        return
    prob = Rosenbrock() if t.flag(0.5, "rosenbrock") else Power2()
    label = f"problem:{type(prob).__name__}"
    moment = t.choice(3, "moment")
    if moment >= 1:
        prob.preprocess_functions(is_function_input_normalized=t.flag(0.5, "normalized"))
    if moment == 2:
        from gemseo.algos.opt.factory import OptimizationLibraryFactory

        OptimizationLibraryFactory().execute(prob, algo_name="SLSQP", max_iter=4)
    with_listeners = moment >= 1 and t.flag(0.5, "user_listeners")
    if with_listeners:
        # listeners registered by the user (a recorder, a stopping rule, the history backup) are part of the problem
        rec_path = str(ctx.scratch / "notifications.txt")
        prob.database.add_store_listener(FileRecorder(rec_path, "store"))
        prob.database.add_new_iter_listener(FileRecorder(rec_path, "new_iter"))
        prob._c20_recorder_path = rec_path
        ctx.probe("problem_with_user_listeners")
    if t.flag(0.3, "other_interpreter"):
        # the problem travels as bytes to an interpreter started with another hash seed (a later session)
        other_seed = 1 + t.choice(40, "other_hash_seed")
        ctx.event("cfg", label, moment, "other-interpreter", other_seed)
        ctx.fire("serialise_other-interpreter")
        x = prob.design_space.get_current_value()
        xe = prob.design_space.normalize_vect(x) if prob.objective.expects_normalized_inputs else x
        try:
            blob = pickle.dumps(prob)
        except Exception as exc:  # noqa: BLE001
            ctx.violate("C20.picklable", f"{label} raised={type(exc).__name__}", f"pickling {label} at moment {moment} raised {exc!r}")
        status, res = in_fresh_interpreter(ctx, blob, None, None, other_seed, fn="child_problem", xe=xe)
        ctx.probe("restored_under_another_hash_seed")
        if status != "ok":
            ctx.violate("C20.behaves_like_original", f"{label} other-interpreter raised", f"the restored problem raised in the other interpreter: {res}")
        exp = problem_view(prob, xe)
        ctx.event("view", canon(res))
        diff = [k for k in exp if exp[k] != res[k]]
        if diff:
            ctx.violate("C20.behaves_like_original", label + " other-interpreter", f"the problem restored in another interpreter differs in {diff}: original { {k: exp[k] for k in diff} } restored { {k: res[k] for k in diff} }")
        ctx.case((label, moment, "other-interpreter"), nontrivial=moment > 0)
        ctx.sample = {"object": label, "moment": ["fresh", "preprocessed", "solved"][moment], "transport": "other-interpreter"}
        return
    ctx.event("cfg", label, moment, transport)
    ctx.fire("serialise_" + ["pickle", "to_pickle-file"][transport])
    try:
        c = send(prob, transport, ctx)
    except Exception as exc:  # noqa: BLE001
        ctx.violate("C20.picklable", f"{label} raised={type(exc).__name__}", f"pickling {label} at moment {moment} raised {exc!r}")
    if len(c.database) != len(prob.database) or c.evaluation_counter.current != prob.evaluation_counter.current or getattr(c.objective, "n_calls", 0) != getattr(prob.objective, "n_calls", 0):
        ctx.violate("C20.counters_as_values", label, "database length / evaluation counter / n_calls differ after restoring")
    prob.evaluation_counter.maximum = c.evaluation_counter.maximum = 10**6
    x = prob.design_space.get_current_value()
    xe = prob.design_space.normalize_vect(x) if prob.objective.expects_normalized_inputs else x
    v1, v2 = prob.objective.evaluate(xe.copy()), c.objective.evaluate(xe.copy())
    if not np.array_equal(np.asarray(v1), np.asarray(v2)):
        ctx.violate("C20.behaves_like_original", label, f"objective differs after restoring: {v1} vs {v2}")
    if with_listeners:
        rec_path = prob._c20_recorder_path
        deltas = []
        for obj, shift in ((prob, 0.123), (c, 0.321)):
            n0_ = FileRecorder.count(rec_path)
            obj.objective.evaluate(np.array(xe, dtype=float) * 0.5 + shift)
            deltas.append(FileRecorder.count(rec_path) - n0_)
        if deltas[0] != deltas[1]:
            ctx.violate("C20.behaves_like_original", label + " listeners", f"a new point notified {deltas[0]} user listeners of the original problem and {deltas[1]} of the restored one")
    n_o = len(prob.database)
    xn = xe * 0.9 + 0.01
    c.objective.evaluate(xn)
    if len(prob.database) != n_o and moment >= 1:
        ctx.violate("C20.isolation", label, "evaluating the restored problem stored an entry in the original's database")
    ctx.case((label, moment, transport), nontrivial=moment > 0)
    ctx.sample = {"object": label, "moment": ["fresh", "preprocessed", "solved"][moment]}
