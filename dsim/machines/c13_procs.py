"""C13, process back-end: real forked workers, start and completion order from the tape.

Workloads (tape-chosen):
  P1  CallableParallelExecution with forked workers
  P2  parallel DOE versus the same DOE run sequentially (failing samples, Jacobians, callbacks)
  P3  parallel finite / centred differences versus serial
  P4  parallel DOE over a discipline whose HDF5Cache file is shared by the workers
  P5  DiscParallelExecution / DiscParallelLinearization with forked disciplines
"""

from __future__ import annotations

from . import _c13_common as common
from . import _c13_doe as doe

PROP = "C13"
NAME = "c13_procs"
RUNS = {"quick": 700, "thorough": 20000}
TIMEOUT = 240
CHUNK = 16
RULE = (
    "each run forks gemseo's real worker processes; the tape decides which parked task body starts next "
    "(one body at a time) and which finished task is delivered next, plus workload, sizes, failing subset, "
    "callbacks; distinct by (workload, n_tasks, n_workers, failing set, start order, completion order); "
    "non-trivial when >=2 tasks on >=2 workers"
)
COMPONENTS_REAL = [
    "gemseo CallableParallelExecution (fork)", "multiprocessing manager queues and list", "pickle transport of results",
    "BaseDOELibrary parallel and sequential loops", "Database", "HDF5Cache + h5py on /dev/shm",
    "DiscParallelExecution/Linearization", "finite-difference approximators",
]
COMPONENTS_STUB = [
    "order of task starts and completions (gates around _TaskCallables, scheduling inside queue_out.get)",
    "time.sleep between forks -> simulated clock", "user callables and disciplines (harness code)",
]
ASSUMPTIONS = [
    "one task body runs at a time: true simultaneity inside cross-process critical sections is not explored; multiprocessing lock primitives are trusted",
    "which OS process serves which task is not controlled and not observed",
    "fork start method only",
]


def run(ctx):
    t = ctx.tape
    w = t.weighted([4, 4, 2, 2, 2, 2, 2, 1], "workload")
    if w == 0:
        common.t1_pool(ctx, "proc")
    elif w == 1:
        doe.p2_parallel_doe(ctx)
    elif w == 2:
        common.t2_disc_parallel(ctx, use_threading=False, linearize=False)
    elif w == 3:
        common.t2_disc_parallel(ctx, use_threading=False, linearize=True)
    elif w == 4:
        doe.p3_parallel_fd(ctx)
    elif w == 5:
        doe.p4_doe_shared_hdf5_cache(ctx)
    elif w == 6:
        common.p5b_one_discipline_many_inputs(ctx)
    else:
        common.p6_execute_helper(ctx)


def evidence_extra(pm):
    return {f"{NAME}_small_pool_order_coverage": common.order_coverage(pm)}
