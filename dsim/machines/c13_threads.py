"""C13, thread back-end: gemseo's worker pool under the baton-passing scheduler.

Workloads (tape-chosen):
  T1  CallableParallelExecution(use_threading=True) on harness callables
  T2  DiscParallelExecution / DiscParallelLinearization / MDOParallelChain /
      MDOAdditiveChain / MDAJacobi on harness disciplines, against a sequential twin
  T3  clones of one discipline sharing a MemoryFullCache, line-level pre-emption
"""

from __future__ import annotations

from . import _c13_common as common

PROP = "C13"
NAME = "c13_threads"
RUNS = {"quick": 6000, "thorough": 400000}
TIMEOUT = 120
CHUNK = 200
RULE = (
    "each run draws a workload (pool of callables / disciplines / chains / Jacobi MDA / shared cache), "
    "task and worker counts, task durations, failing subset and exception kinds, callbacks, and every "
    "scheduling decision of the thread pool from one tape; a case is distinct by (workload, n_tasks, "
    "n_workers, failing set, completion order) and non-trivial when >=2 tasks ran on >=2 workers"
)
COMPONENTS_REAL = [
    "gemseo CallableParallelExecution/_execute_workers (threads)",
    "DiscParallelExecution", "DiscParallelLinearization", "MDOParallelChain", "MDOAdditiveChain",
    "MDAJacobi", "MemoryFullCache/BaseFullCache", "Discipline.execute/linearize",
]
COMPONENTS_STUB = [
    "threading.Thread scheduling (real threads, simulated choice)", "queue.Queue -> SimQueue",
    "multiprocessing.RLock/Value -> SimRLock/SimValue", "time.sleep -> simulated clock",
    "user callables and disciplines (harness code)",
]
ASSUMPTIONS = [
    "pre-emption is at queue/lock/thread operations, and at Python line boundaries of gemseo files when enabled; C-level calls are atomic (GIL)",
]


def run(ctx):
    t = ctx.tape
    w = t.weighted([5, 2, 2, 2, 2, 2], "workload")
    if w == 0:
        common.t1_pool(ctx, "thread")
    elif w == 1:
        common.t2_disc_parallel(ctx, use_threading=True, linearize=False)
    elif w == 2:
        common.t2_disc_parallel(ctx, use_threading=True, linearize=True)
    elif w == 3:
        common.t2_parallel_chain(ctx)
    elif w == 4:
        common.t2_jacobi(ctx)
    else:
        common.t3_shared_cache(ctx)


def evidence_extra(pm):
    return {f"{NAME}_small_pool_order_coverage": common.order_coverage(pm)}
