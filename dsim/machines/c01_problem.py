"""C01: value/Jacobian requests on a problem against a memo model, with failing callables and a budget cut-off."""

from __future__ import annotations

import math

import numpy as np
from numpy import array

from ..core import canon

PROP = "C01"
NAME = "c01_problem"
RUNS = {"quick": 5000, "thorough": 1000000}
TIMEOUT = 120
CHUNK = 100
RULE = (
    "each run draws a design space (per component: bounded, [0,1], equal bounds, one-sided, unbounded; optional integer variable), three functions "
    "(scalar nonlinear, vector with dense or sparse Jacobian, linear), a preprocessing configuration (normalised or not, database on/off, Jacobian "
    "storage, rounding, user or finite-difference derivatives) and a history of up to 25 requests (value or Jacobian of a function at one of <=5 points "
    "through evaluate/jac or evaluate_functions in normalised or physical coordinates) interleaved with faults (next user call raises / returns NaN, "
    "budget exhausted) and database.clear(); distinct by configuration+history; non-trivial when some (function, point) was requested twice"
)
COMPONENTS_REAL = ["OptimizationProblem.preprocess_functions / evaluate_functions", "ProblemFunction (database lookup, store, NaN and budget checks)", "Database / HashableNdarray",
                   "DesignSpace normalisation and gradient scaling", "MDOLinearFunction.normalize", "finite-difference approximator"]
COMPONENTS_STUB = ["user callables (harness code with call log and fault plan)", "the caller (request generator)"]
ASSUMPTIONS = [
    "the history x fault dimension is what the simulator explores; design spaces and functions are sampled per run, not enumerated",
    "values are compared to 1e-11 relative (the affine (un)normalisation is re-computed independently by the harness); finite-difference Jacobians to 1e-4",
    "with rounding on and no normalisation the record may be keyed by the given or by the rounded physical point, consistently",
]


class Fn:
    def __init__(self, name, f, df, sparse=False, sparse_format="csr"):
        self.name, self.f, self.df, self.sparse, self.sparse_format = name, f, df, sparse, sparse_format
        self.calls = []
        self.jac_calls = []
        self.fault = None  # None | "raise" | "nan"
        self.fired = None
        self.n_probes = 0

    def func(self, x):
        x = np.asarray(x)
        if np.iscomplexobj(x) and np.any(x.imag != 0):
            self.n_probes += 1
            return self.f(x)  # a complex-step probe: not a request at a design point
        self.calls.append(x.real.astype(float).copy())
        if self.fault == "raise":
            self.fault, self.fired = None, "raise"
            raise ValueError(f"injected failure of {self.name}")
        v = self.f(x)
        if self.fault == "nan":
            self.fault, self.fired = None, "nan"
            return v * float("nan")
        return v

    def jac(self, x):
        x = np.asarray(x)
        self.jac_calls.append(x.real.astype(float).copy())
        if self.fault == "raise":
            self.fault, self.fired = None, "raise"
            raise ValueError(f"injected failure of d{self.name}")
        j = self.df(x)
        if self.sparse:
            from scipy import sparse as sp

            # (any sparse array format is a legal Jacobian; only CSR keeps column indices in .indices)
            return {"csr": sp.csr_array, "csc": sp.csc_array, "coo": sp.coo_array}[self.sparse_format](np.atleast_2d(j))
        return j


def dense(v):
    if hasattr(v, "toarray"):
        return v.toarray()
    if hasattr(v, "todense"):
        return np.asarray(v.todense())
    return np.asarray(v)


def run(ctx):
    from gemseo.algos.design_space import DesignSpace
    from gemseo.algos.optimization_problem import OptimizationProblem
    from gemseo.algos.stop_criteria import FunctionIsNan, MaxIterReachedException
    from gemseo.core.mdo_functions.mdo_function import MDOFunction
    from gemseo.core.mdo_functions.mdo_linear_function import MDOLinearFunction

    t = ctx.tape
    # --- design space -------------------------------------------------------------------
    n_float = t.randint(1, 3, "n_float_components")
    kinds = [t.weighted([5, 2, 2, 1, 1], f"bounds[{i}]") for i in range(n_float)]
    lbs, ubs = [], []
    for k in kinds:
        lb, ub = [(-2.0, 2.0), (0.0, 1.0), (1.0, 1.0), (-math.inf, 3.0), (-math.inf, math.inf)][k]
        lbs.append(lb)
        ubs.append(ub)
    with_int = t.flag(0.3, "integer_variable")
    normalize = t.flag(0.6, "normalize")
    # a ParameterSpace is a DesignSpace (deterministic variables here): the same contract holds on it
    param_space = t.flag(0.2, "parameter_space")
    if param_space:
        from gemseo.algos.parameter_space import ParameterSpace

        ds = ParameterSpace()
        ctx.probe("problem_on_a_parameter_space")
    else:
        ds = DesignSpace()
    x0 = [min(max(0.5, lb if math.isfinite(lb) else -5), ub if math.isfinite(ub) else 5) for lb, ub in zip(lbs, ubs)]
    ds.add_variable("x", size=n_float, lower_bound=array(lbs), upper_bound=array(ubs), value=array(x0))
    if with_int:
        ds.add_variable("n", size=1, type_="integer", lower_bound=-2, upper_bound=3, value=array([1]))
        lbs.append(-2.0)
        ubs.append(3.0)
    dim = len(lbs)
    lb_a, ub_a = array(lbs), array(ubs)
    is_int = array([False] * n_float + ([True] if with_int else []))
    normalizable = np.isfinite(lb_a) & np.isfinite(ub_a) & ~is_int  # integer variables are not normalised by default
    span = np.where(normalizable, ub_a - lb_a, 1.0)
    # --- functions ---------------------------------------------------------------------------
    c = array([1.0 + 0.5 * i for i in range(dim)])
    a = array([0.25 * (i + 1) for i in range(dim)])
    sparse = t.flag(0.3, "sparse_jacobian")
    sparse_format = t.pick(["csr", "csc", "coo"], "sparse_format") if sparse else "csr"
    fns = {
        "f": Fn("f", lambda x: float((c * (x - a) ** 2).sum().real) if not np.iscomplexobj(x) else (c * (x - a) ** 2).sum(),
                lambda x: 2 * c * (x - a)),
        "g": Fn("g", lambda x: array([x.sum() - 1.0, (x * x).sum() * 0.5]), lambda x: np.vstack([np.ones(dim), x]), sparse=sparse, sparse_format=sparse_format),
    }
    lin_coef = array([[0.5 * (i + 1) for i in range(dim)]])
    p = OptimizationProblem(ds)
    user_jac = t.flag(0.75, "user_derivatives")
    p.objective = MDOFunction(fns["f"].func, "f", jac=fns["f"].jac if user_jac else None)
    maximize = t.flag(0.2, "maximize")
    if maximize:
        p.minimize_objective = False  # the problem then works on (and records) -f
    g_positive = t.flag(0.3, "constraint_positive")
    g_offset = t.pick([0.0, 0.5, -1.25], "constraint_value")
    # standard form recorded by the problem: g - value <= 0, negated for a "positive" constraint
    p.add_constraint(MDOFunction(fns["g"].func, "g", jac=fns["g"].jac if user_jac else None), value=g_offset, constraint_type="ineq", positive=g_positive)
    std = {"f": (-1.0 if maximize else 1.0, 0.0), "g": (-1.0 if g_positive else 1.0, g_offset), "lin": (1.0, 0.0)}
    # a non-linear observable evaluated by the new-iteration listener, as every driver registers it
    listen = t.flag(0.35, "new_iteration_listener")
    if listen:
        fns["o"] = Fn("o", lambda x: np.atleast_1d((x * x * x).sum()), lambda x: np.atleast_2d(3 * x * x))
        p.add_observable(MDOFunction(fns["o"].func, "o", jac=fns["o"].jac if user_jac else None))
    with_lin = t.flag(0.5, "linear_function")
    if with_lin:
        p.add_observable(MDOLinearFunction(lin_coef, "lin", value_at_zero=array([0.75])))
    complex_step = False
    if not user_jac:
        complex_step = not with_int and t.flag(0.4, "complex_step")
        if complex_step:
            # as the optimisation libraries do before a run with complex-step differentiation; the design space may have
            # served normalisation requests before (an earlier run, a post-processing)
            if t.flag(0.5, "normalisation_used_before"):
                finite = np.where(np.isfinite(lb_a) & np.isfinite(ub_a), np.array(x0 + ([1.0] if with_int else [])), 0.0)
                ds.normalize_vect(finite)
                ds.get_current_value(normalize=True)
            p.differentiation_method = p.ApproximationMode.COMPLEX_STEP
            ds.to_complex()
            ctx.probe("complex_step_differentiation")
        else:
            p.differentiation_method = p.ApproximationMode.FINITE_DIFFERENCES
    use_db = not t.flag(0.15, "no_database")
    store_jac = not t.flag(0.25, "no_jacobian_storage")
    round_ints = not t.flag(0.3, "no_rounding")
    p.preprocess_functions(is_function_input_normalized=normalize, use_database=use_db, round_ints=round_ints, store_jacobian=store_jac,
                           support_sparse_jacobian=t.flag(0.5, "support_sparse"))
    p.evaluation_counter.maximum = 1000
    if listen and use_db:
        p.database.add_new_iter_listener(p.new_iter_observables.evaluate)
    cfg = {"bounds": list(zip(map(str, lbs), map(str, ubs))), "integer": with_int, "normalize": normalize, "database": use_db, "store_jacobian": store_jac,
           "round_ints": round_ints, "user_derivatives": user_jac, "sparse": sparse, "linear": with_lin}
    ctx.event("cfg", canon(cfg))
    sig = f"norm={int(normalize)} db={int(use_db)} round={int(round_ints)} int={int(with_int)} userjac={int(user_jac)}" + (" ParameterSpace" if param_space else "") + (" complex-step" if complex_step else "")
    names = ["f", "g"] + (["lin"] if with_lin else [])
    cfg.update(maximize=maximize, constraint_positive=g_positive, constraint_value=g_offset)
    pfun = {"f": p.objective, "g": p.constraints[0]}
    if with_lin:
        pfun["lin"] = next(o for o in p.observables if o.name == "lin")
    dbn = {k: v.name for k, v in pfun.items()}  # names under which the standardised functions are recorded

    # --- points (in physical coordinates) -------------------------------------------------------
    n_points = t.randint(1, 5, "n_points")
    points = []
    for j in range(n_points):
        x = []
        for i in range(dim):
            if is_int[i]:
                # a fractional value of an integer variable is only unambiguous when rounding is on
                # (without it the nonlinear normalised path still rounds, the linear one does not)
                v = float(t.randint(-2, 3, f"p{j}[{i}]"))
                if round_ints and v < 3 and t.flag(0.3, f"frac{j}"):
                    v += 0.3
                x.append(v)
            elif lbs[i] == ubs[i]:
                x.append(lbs[i])
            else:
                lo = lbs[i] if math.isfinite(lbs[i]) else -3.0
                hi = ubs[i] if math.isfinite(ubs[i]) else 3.0
                x.append(lo + (hi - lo) * t.randint(0, 8, f"p{j}[{i}]") / 8.0)
        if j and t.flag(0.3, f"near_duplicate[{j}]"):
            # a distinct physical point a few hundred ulps away from an earlier one
            base = points[t.choice(j, f"dup_of[{j}]")].copy()
            free = [i for i in range(dim) if not is_int[i] and lbs[i] != ubs[i]]
            if free:
                i = free[t.choice(len(free), f"dup_comp[{j}]")]
                base[i] = base[i] * (1 - 3e-13) if base[i] != 0 else 3e-13
                x = base.tolist()
                ctx.probe("near_duplicate_point")
        points.append(array(x))

    def same_key(a, b):
        """Same physical point up to a few ulps (the harness recomputes the affine map independently)."""
        a, b = np.asarray(a, dtype=float), np.asarray(b, dtype=float)
        return a.shape == b.shape and bool(np.all(np.abs(a - b) <= 2e-14 * np.maximum(1.0, np.maximum(np.abs(a), np.abs(b)))))

    def to_norm(x):
        return np.where(normalizable, (x - np.where(normalizable, lb_a, 0.0)) / np.where(span == 0, 1.0, span), x)

    def phys_of(x_given, given_normalized):
        """The physical point the functions must be evaluated at (independent re-computation)."""
        x = array(x_given, dtype=float)
        if given_normalized:
            x = np.where(normalizable, lb_a + x * span, x)
            x = np.where(is_int, np.round(x), x)  # unnormalisation rounds integer components
        if round_ints:
            x = np.where(is_int, np.round(x), x)
        return x

    def true_value(name, xp):
        if name == "lin":
            return lin_coef @ xp + 0.75
        sgn, off = std[name]
        return sgn * (np.atleast_1d(fns[name].f(xp)) - off)

    def true_jac_phys(name, xp):
        if name == "lin":
            return lin_coef.copy()
        return std[name][0] * np.atleast_2d(fns[name].df(xp))

    # the caller may reuse one array object for its requests, writing each new point into it in place
    reuse_buffer = t.flag(0.4, "caller_reuses_one_buffer")
    shared_buf = np.zeros(dim)
    model = {}  # key(tuple of the recorded physical point) -> {name: value}
    requested = set()
    repeated = False
    ops = []
    n_ops = t.randint(1, 25, "n_ops")

    def db_record(xp_candidates):
        for xp in xp_candidates:
            rec = p.database.get(xp)
            if rec is not None:
                return xp, rec
            for k2, rec in p.database.items():
                if same_key(k2.wrapped_array, xp):
                    return k2.wrapped_array, rec
        return None, None

    for i in range(n_ops):
        with t.frame("op"):
            op = t.weighted([8, 6, 3, 2, 1, 1, 2], "op")
            if op == 6:
                # the original functions, evaluated outside the database and in physical coordinates
                # (get_functions(no_db_no_norm=True) + evaluate_functions), with an explicit selection
                j = t.choice(n_points, "point")
                with_obj = t.flag(0.6, "evaluate_objective")
                sel = t.weighted([2, 2, 1], "constraint_selection")  # by name / all / none
                want_j = t.flag(0.5, "with_jacobians") and user_jac
                xq = phys_of(points[j], False)
                if round_ints is False and with_int:
                    xq = points[j].copy()
                db_before = {tuple(x.wrapped_array.tolist()): sorted(r) for x, r in p.database.items()} if use_db else None
                calls_before = {n: len(fn.calls) for n, fn in fns.items()}
                ops.append(("no_db_no_norm", j, with_obj, ["by-name", "all", "none"][sel], want_j))
                try:
                    ofs, jfs = p.get_functions(
                        no_db_no_norm=True, evaluate_objective=with_obj, observable_names=None,
                        constraint_names=[dbn["g"]] if sel == 0 else (() if sel == 1 else None),
                        jacobian_names=() if want_j else None,
                    )
                    outs, jacs = p.evaluate_functions(design_vector=points[j].copy(), design_vector_is_normalized=False,
                                                       output_functions=ofs or None, jacobian_functions=jfs or None)
                except Exception as exc:  # noqa: BLE001
                    ctx.violate("C01.faithful_value", sig + " no_db_no_norm raised", f"{ops[-1]} raised {exc!r}; cfg={cfg}")
                ctx.event("nodb", j, canon({k: np.asarray(v) for k, v in outs.items()}))
                x_eval = np.where(is_int, np.round(points[j]), points[j]) if round_ints else points[j]
                # the original functions are not rounded nor normalised: they see the given physical point
                for nm, key_n in (("f", dbn["f"]), ("g", dbn["g"])):
                    if key_n in outs:
                        sgn, off = std[nm]
                        got = np.atleast_1d(np.asarray(outs[key_n], dtype=float))
                        cands = [sgn * (np.atleast_1d(fns[nm].f(xx)) - off) for xx in (points[j], x_eval)]
                        if not any(got.shape == c.shape and np.allclose(got, c, rtol=1e-11, atol=1e-11) for c in cands):
                            ctx.violate("C01.faithful_value", sig + " no_db_no_norm", f"{ops[-1]}: {key_n}={got} but the original function gives {cands[0]} at the physical point {points[j]}; cfg={cfg}")
                    if key_n in jacs:
                        sgn, off = std[nm]
                        got = np.atleast_2d(dense(jacs[key_n]).astype(float))
                        cands = [sgn * np.atleast_2d(fns[nm].df(xx)) for xx in (points[j], x_eval)]
                        if not any(got.shape == c.shape and np.allclose(got, c, rtol=1e-11, atol=1e-10) for c in cands):
                            ctx.violate("C01.jacobian_in_caller_coordinates", sig + " no_db_no_norm phys", f"{ops[-1]}: Jacobian of {key_n} = {got.tolist()} but the physical Jacobian of the original function is {cands[0].tolist()}; cfg={cfg}")
                if sel == 0 and set(outs) - {dbn["f"], dbn["g"]}:
                    pass
                if use_db:
                    db_after = {tuple(x.wrapped_array.tolist()): sorted(r) for x, r in p.database.items()}
                    if db_after != db_before:
                        ctx.violate("C01.recorded", sig + " no_db_no_norm writes-database", f"{ops[-1]} changed the database although no_db_no_norm=True: {db_before} -> {db_after}; cfg={cfg}")
                for nm, fn in fns.items():
                    for xc in fn.calls[calls_before[nm]:]:
                        if not (np.allclose(xc, points[j], rtol=1e-12, atol=1e-12) or np.allclose(xc, x_eval, rtol=1e-12, atol=1e-12)):
                            ctx.violate("C01.physical_point", sig + " no_db_no_norm", f"{ops[-1]}: {nm} was called at {xc}, the physical point is {points[j]}; cfg={cfg}")
                ctx.probe("original_functions_outside_database")
                continue
            if op == 4 and use_db:
                ops.append(("clear",))
                p.database.clear()
                model.clear()
                requested.clear()
                continue
            if op == 5:
                k = t.choice(3, "budget_left")
                p.evaluation_counter.maximum = p.evaluation_counter.current + k
                ops.append(("budget_left", k))
                ctx.fire("budget_lowered")
                continue
            j = t.choice(n_points, "point")
            name = names[t.choice(len(names), "function")]
            want_jac = op in (1,) or (op == 3 and t.flag(0.5, "jac_under_fault"))
            through_ef = op == 2 or (op == 3 and t.flag(0.3, "ef_under_fault"))
            fault = None
            if op == 3 and name != "lin":
                fault = t.pick(["raise", "nan"], "fault")
                fns[name].fault = fault
                fns[name].fired = None
            x_phys_given = points[j]
            if through_ef:
                given_norm = t.flag(0.5, "ef_normalized")
                x_given = to_norm(x_phys_given) if given_norm else x_phys_given.copy()
                coord_norm = given_norm
            else:
                given_norm = normalize
                x_given = to_norm(x_phys_given) if normalize else x_phys_given.copy()
                coord_norm = normalize
            xp = phys_of(x_given, given_norm)
            if given_norm and not normalize and round_ints:
                pass
            # the point under which the request is recorded: the physical point as the function receives it,
            # i.e. rounded exactly when an unnormalisation step occurred (unnormalisation rounds integers)
            x_key = xp if (normalize or (through_ef and given_norm)) else array(x_phys_given, dtype=float)
            key_exact = tuple(x_key.tolist())
            probes0 = fns[name].n_probes if name != "lin" else 0
            calls0 = len(fns[name].calls) if name != "lin" else 0
            jcalls0 = len(fns[name].jac_calls) if name != "lin" else 0
            ops.append(("jac" if want_jac else "val", name, j, "evaluate_functions" if through_ef else "direct", "norm" if given_norm else "phys", fault))
            if (name, want_jac, key_exact) in requested:
                repeated = True
            had_record = use_db and any(
                (dbn[name] if not want_jac else "@" + dbn[name]) in rec for k2, rec in model.items() if same_key(k2, x_key)
            )
            # the (un)normalisation round trip can record "the same" point under keys one ulp apart:
            # with such twins the memoisation of this request is ambiguous and only faithfulness is checked
            twins_before = [k2 for k2 in model if same_key(k2, x_key)] if use_db else []
            ambiguous = len(twins_before) > 1
            n_before = p.evaluation_counter.current
            budget_exhausted = p.evaluation_counter.maximum_is_reached
            exc = None
            val = None
            if reuse_buffer and t.flag(0.7, "in_buffer"):
                shared_buf[...] = x_given
                x_arg = shared_buf
                ctx.fire("caller_reuses_buffer_in_place")
            else:
                x_arg = x_given.copy()
            via_current = False
            # (not with complex-step differentiation: a float current value set after to_complex() turns the space real again)
            if through_ef and not with_int and not complex_step and t.flag(0.3, "ef_at_current_value"):
                # no design vector: the request is made at the current value of the design space, read in the stated coordinates
                try:
                    p.design_space.set_current_value(x_phys_given.copy())
                    via_current = True
                    ctx.probe("evaluate_functions_at_current_value")
                except Exception:  # noqa: BLE001  (a point the design space refuses as current value)
                    via_current = False
            try:
                if through_ef:
                    outs, jacs = p.evaluate_functions(
                        design_vector=None if via_current else x_arg, design_vector_is_normalized=given_norm,
                        output_functions=None if want_jac else [pfun[name]], jacobian_functions=[pfun[name]] if want_jac else None,
                    )
                    val = jacs[dbn[name]] if want_jac else outs[dbn[name]]
                    # evaluate_functions returns derivatives w.r.t. the coordinates of the preprocessed functions
                    coord_norm = normalize
                elif want_jac:
                    val = pfun[name].jac(x_arg)
                else:
                    val = pfun[name].evaluate(x_arg)
            except (ValueError, FunctionIsNan, MaxIterReachedException) as e:
                exc = e
            fired = fns[name].fired if name != "lin" else None
            if name != "lin":
                fns[name].fault = None
                fns[name].fired = None
            if fired:
                ctx.fire("user_callable_" + ("raises" if fired == "raise" else "returns_nan"))
            ctx.event("op", i, canon(ops[-1]), canon(None if val is None else dense(val)), canon(exc))
            new_calls = (len(fns[name].calls) - calls0) if name != "lin" else 0
            new_jcalls = (len(fns[name].jac_calls) - jcalls0) if name != "lin" else 0
            if exc is not None:
                if isinstance(exc, MaxIterReachedException):
                    ctx.fire("budget_exhausted_mid_history")
                    if not budget_exhausted or had_record:
                        ctx.violate("C01.memoised", sig + " budget", f"MaxIterReachedException for a request that {'is recorded' if had_record else 'had budget left'}: {ops[-1]}; ops={ops}")
                elif fired is None:
                    ctx.violate("C01.faithful_value", sig + " raised", f"request {ops[-1]} raised {exc!r} without an injected fault; cfg={cfg}; ops={ops}")
                # a failed request leaves no record for that (point, name)
                _, rec = db_record([x_key]) if use_db else (None, None)
                rname = "@" + dbn[name] if want_jac else dbn[name]
                if rec is not None and rname in rec and not had_record:
                    ctx.violate("C01.no_record_after_failure", sig, f"failed request {ops[-1]} left a record {rname}={rec[rname]}; ops={ops}")
                continue
            if fired == "nan":
                # without a database there is no NaN check: the NaN is the faithful value (the statement
                # says nothing about NaN handling); nothing more to compare for this request
                ctx.probe("nan_returned_to_caller")
                continue
            requested.add((name, want_jac, key_exact))
            # the user function saw the right physical point
            if name != "lin" and new_calls and not want_jac:
                seen = fns[name].calls[-1]
                if not np.allclose(seen, xp, rtol=1e-12, atol=1e-12):
                    ctx.violate("C01.physical_point", sig, f"{name} was called at {seen} for the request {ops[-1]} whose physical point is {xp}; cfg={cfg}")
            if use_db and len([k2 for k2 in p.database.keys() if same_key(k2.wrapped_array, x_key)]) > 1:
                ambiguous = True
            if ambiguous:
                ctx.probe("ulp_twin_keys")
            if had_record and (new_calls or new_jcalls) and not ambiguous:
                ctx.violate("C01.memoised", sig, f"the original function was called again ({new_calls} value / {new_jcalls} Jacobian calls) for the recorded request {ops[-1]}; ops={ops}")
            if had_record:
                ctx.probe("served_from_database")
            elif use_db and name != "lin" and not ambiguous and not (new_jcalls if (want_jac and user_jac) else (new_calls or fns[name].n_probes - probes0)):
                ctx.violate("C01.faithful_value", sig + " not-evaluated", f"{ops[-1]}: the point {x_key} has no record for this request, yet the original function was not called (served from another point?); ops={ops}")
            if not want_jac:
                exp = true_value(name, xp)
                got = np.atleast_1d(np.asarray(val, dtype=float))
                if got.shape != exp.shape or not np.allclose(got, exp, rtol=1e-11, atol=1e-11):
                    ctx.violate("C01.faithful_value", sig, f"{ops[-1]} returned {got}, the original function gives {exp} at the physical point {xp}; cfg={cfg}")
                rec_exp = exp
                rname = dbn[name]
            else:
                ju = true_jac_phys(name, xp)
                scale = np.where(normalizable, span, 1.0) if coord_norm else np.ones(dim)
                exp = ju * scale
                got = np.atleast_2d(dense(val).astype(float))
                if not user_jac and got.shape == exp.shape:
                    # a finite-difference step on an integer variable is rounded away: that column is not compared
                    got = np.where(is_int, exp, got)
                tol = 1e-11 if user_jac else 2e-4
                if got.shape != exp.shape or not np.allclose(got, exp, rtol=tol, atol=tol * 10):
                    ctx.violate("C01.jacobian_in_caller_coordinates", sig + f" {'norm' if coord_norm else 'phys'}",
                                f"{ops[-1]} returned the Jacobian {got.tolist()}, expected {exp.tolist()} (physical Jacobian {ju.tolist()} scaled by {scale.tolist()}); cfg={cfg}")
                # recorded physical Jacobian: zero where the bounds coincide and the functions are normalised
                rec_exp = ju * np.where((span == 0) & normalizable & normalize, 0.0, 1.0)
                rname = "@" + dbn[name]
            # the database records exactly that, under the physical point
            if use_db and ambiguous:
                for k2, rec in p.database.items():
                    if same_key(k2.wrapped_array, x_key):
                        for rn, v in rec.items():
                            model.setdefault(tuple(float(u) for u in k2.wrapped_array), {}).setdefault(rn, v)
            elif use_db and (not want_jac or store_jac):
                kx, rec = db_record([x_key])
                if rec is None or rname not in rec:
                    ctx.violate("C01.recorded", sig, f"after {ops[-1]} the database has no record {rname} under the physical point {xp}: {rec}; ops={ops}")
                rv = np.atleast_1d(dense(rec[rname]).astype(float)) if not want_jac else np.atleast_2d(dense(rec[rname]).astype(float))
                if want_jac and not user_jac and rv.shape == np.asarray(rec_exp).shape:
                    rv = np.where(is_int, rec_exp, rv)
                tol = 1e-11 if (not want_jac or user_jac) else 2e-4
                if rv.shape != np.asarray(rec_exp).shape or not np.allclose(rv, rec_exp, rtol=tol, atol=tol * 10):
                    ctx.violate("C01.recorded", sig + (" jacobian" if want_jac else " value"),
                                f"after {ops[-1]} the database records {rname}={rv.tolist()} under {kx}, expected {np.asarray(rec_exp).tolist()}; cfg={cfg}")
                model.setdefault(tuple(float(v) for v in kx), {})[rname] = rv
                if not had_record and p.evaluation_counter.current != n_before:
                    pass
            elif use_db and want_jac and not store_jac:
                kx, rec = db_record([x_key])
                if rec is not None and rname in rec and rname not in {r for m_ in model.values() for r in m_}:
                    ctx.violate("C01.recorded", sig + " store_jacobian=False", f"Jacobian stored although Jacobian storage is off; ops={ops}")
    # the observable recorded by the new-iteration listener is the user's observable at the physical point the other
    # functions of that entry were evaluated at (rounded integer components when rounding is on)
    if use_db and listen:
        for x, rec in p.database.items():
            if "o" not in rec:
                continue
            ctx.probe("observable_recorded_by_the_new_iteration_listener")
            kx = np.asarray(x.wrapped_array, dtype=float)
            x_eval = np.where(is_int, np.round(kx), kx) if round_ints else kx
            got = np.atleast_1d(np.asarray(rec["o"], dtype=float))
            exp_o = np.atleast_1d((x_eval ** 3).sum())
            if got.shape != exp_o.shape or not np.allclose(got, exp_o, rtol=1e-11, atol=1e-11):
                ctx.violate("C01.recorded", sig + " observable", f"the database records o={got.tolist()} under {kx.tolist()}, the user's observable at the evaluated point {x_eval.tolist()} is {exp_o.tolist()}; ops={ops}; cfg={cfg}")
        for c in fns["o"].calls:
            if round_ints and np.any(np.abs(c[is_int] - np.round(c[is_int])) > 1e-12):
                ctx.violate("C01.physical_point", sig + " observable", f"the user's observable was called at {c.tolist()} although integer components are rounded; ops={ops}; cfg={cfg}")
    # cross invariant: every record of the database is in the model and equal
    if use_db:
        for x, rec in p.database.items():
            k = tuple(float(v) for v in x.wrapped_array)
            m = model.get(k)
            for rname, v in rec.items():
                if m is None or rname not in m:
                    if listen and rname.lstrip("@") == dbn.get("lin"):
                        continue  # (recorded by the new-iteration listener, which evaluates every observable)
                    if rname.lstrip("@") in set(dbn.values()):
                        ctx.violate("C01.recorded", sig + " unexpected-record", f"database holds {rname} at {k} that no successful request produced; ops={ops}")
    ctx.event("ops", canon(ops))
    ctx.case((canon(cfg), canon(ops)), nontrivial=repeated)
    ctx.sample = {"cfg": cfg, "points": [x.tolist() for x in points], "ops": [list(map(str, o)) for o in ops[:25]]}
