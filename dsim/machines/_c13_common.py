"""C13 workloads over harness disciplines, shared by the thread and process machines."""

from __future__ import annotations

from contextlib import contextmanager

from numpy import array, array_equal, zeros

from ..clock import SimClock
from ..core import canon
from ..models import HDisc, InjectedFailure
from ..sched import Deadlock

TRACE_FILES = (
    "gemseo/caches/",
    "gemseo/core/discipline/base_discipline.py",
    "gemseo/core/discipline/discipline.py",
    "gemseo/core/parallel_execution/",
    "gemseo/core/execution_statistics.py",
    "gemseo/core/chains/",
    "gemseo/mda/",
)


class _ThreadEngine:
    mode = "thread"

    def __init__(self, s):
        self.s = s

    def work(self, n):
        for _ in range(n):
            self.s.yield_("work")

    def alive(self):
        s = self.s
        return [a.name for a in s.actors if a is not s.main and a.started and not a.done]


class _ProcEngine:
    mode = "proc"

    def __init__(self, e):
        self.e = e

    def work(self, n):
        pass

    def alive(self):
        return []


@contextmanager
def engine(ctx, mode, clock, **kw):
    if mode == "thread":
        from ..seams import thread_simulation

        with thread_simulation(ctx, clock, **kw) as s:
            yield _ThreadEngine(s)
    else:
        from ..procs import process_simulation

        with process_simulation(ctx, clock=clock) as e:
            yield _ProcEngine(e)


def _eq_data(a, b):
    return array_equal(array(a), array(b))


def _dense(j):
    return j.toarray() if hasattr(j, "toarray") else array(j)


def draw_disciplines(t, n, hook, shared_output=None):
    names = ["a", "b", "c"]
    sizes = {"a": t.randint(1, 2, "size_a"), "b": 1, "c": t.randint(1, 3, "size_c")}
    discs = []
    for i in range(n):
        k = t.randint(1, 2, f"n_in[{i}]")
        first = t.choice(3, f"in0[{i}]")
        ins = [names[(first + j) % 3] for j in range(k)]
        outs = [f"y{i}"]
        if t.flag(0.3, f"two_out[{i}]"):
            outs.append(f"z{i}")
        sz = dict(sizes)
        for o in outs:
            sz[o] = t.randint(1, 2, f"size_{o}")
        if shared_output:
            outs.append(shared_output)
            sz[shared_output] = 2
        discs.append(HDisc(f"D{i}", ins, outs, sz, salt=i, hook=hook))
    return discs, sizes


def draw_input(t, sizes, tag):
    return {n: array([t.randint(-2, 2, f"{tag}.{n}[{j}]") / 2.0 for j in range(s)]) for n, s in sizes.items()}


# ------------------------------------------------------------------------------------
# T2a/T2b: DiscParallelExecution / DiscParallelLinearization
# ------------------------------------------------------------------------------------
def t2_disc_parallel(ctx, use_threading, linearize):
    from gemseo.core.parallel_execution.disc_parallel_execution import DiscParallelExecution
    from gemseo.core.parallel_execution.disc_parallel_linearization import DiscParallelLinearization

    t = ctx.tape
    mode = "thread" if use_threading else "proc"
    n = t.randint(1, 5, "n_disc")
    n_workers = t.randint(1, 4, "n_workers")
    faults_on = t.flag(0.5, "faults_on")
    durations = [t.choice(3, f"dur[{i}]") for i in range(n)]
    fails = [faults_on and t.flag(0.25, f"fail[{i}]") for i in range(n)]
    fail_in_jac = linearize and t.flag(0.5, "fail_in_jac")
    clock = SimClock()
    state = {}

    def hook(disc, kind, snap):
        i = int(disc.name[1:])
        eng = state["eng"]
        if kind == "run":
            eng.work(durations[i])
        if fails[i] and ((kind == "jac") == bool(fail_in_jac)):
            ctx.fire("task_raises")
            raise InjectedFailure(f"injected failure in {disc.name}.{kind}")

    discs, sizes = draw_disciplines(t, n, hook)
    inputs = [draw_input(t, {k: sizes[k] for k in d.h_in}, f"in{i}") for i, d in enumerate(discs)]
    for d in discs:
        d.add_differentiated_inputs()
        d.add_differentiated_outputs()
    cfg = {
        "workload": ("T2b-linearize" if linearize else "T2a-execute") + "/" + mode,
        "n_disc": n, "n_workers": n_workers, "durations": durations,
        "failing": [i for i in range(n) if fails[i]], "fail_in_jac": bool(fail_in_jac),
        "disciplines": [(d.name, d.h_in, d.h_out) for d in discs],
    }
    ctx.event("cfg", canon(cfg), canon(inputs))
    log = []
    out = exc = None
    with engine(ctx, mode, clock, with_locks=True) as eng:
        state["eng"] = eng
        cls = DiscParallelLinearization if linearize else DiscParallelExecution
        par = cls(discs, n_processes=n_workers, use_threading=use_threading)
        try:
            out = par.execute([dict(x) for x in inputs], exec_callback=lambda i, o: log.append(i))
        except Deadlock as d:
            ctx.violate("C13.liveness", f"{cfg['workload']} deadlock", str(d))
        except Exception as e:  # noqa: BLE001
            exc = e
        alive = eng.alive()
    failing = {i for i in range(n) if fails[i]}
    sig = cfg["workload"]
    ctx.event("out", canon([None if o is None else dict(o) for o in out] if (out is not None and not linearize) else None),
              canon(exc), tuple(log))
    if exc is not None:
        ctx.violate("C13.returns", sig + f" raised={type(exc).__name__}", f"execute raised {exc!r}; cfg={cfg}")
    if alive:
        ctx.violate("C13.liveness", sig, f"workers alive after execute: {alive}")
    if sorted(log) != sorted(set(range(n)) - failing):
        ctx.violate("C13.callback", sig, f"callback indices {log}, failing {sorted(failing)}; cfg={cfg}")
    if len(out) != n:
        ctx.violate(
            "C13.positional", sig + " result-list-length" + (" with-failures" if failing else ""),
            f"{len(out)} results for {n} tasks (failing={sorted(failing)}): the list is not positional; cfg={cfg}",
            fatal=False,
        )
    else:
        for i, d in enumerate(discs):
            if i in failing:
                if out[i] is not None:
                    ctx.violate("C13.positional", sig, f"slot {i} of a failing task holds {out[i]}; cfg={cfg}")
                continue
            if out[i] is None:
                ctx.violate("C13.positional", sig, f"slot {i} is None but task {i} did not fail; cfg={cfg}")
            if linearize:
                _check_jac(ctx, sig, d, inputs[i], out[i], cfg)
            else:
                exp = d.f(inputs[i])
                for o, v in exp.items():
                    if o not in out[i] or not _eq_data(out[i][o], v):
                        ctx.violate("C13.positional", sig, f"slot {i}: {o}={out[i].get(o)} expected {v}; cfg={cfg}")
    # the right discipline was updated (a single forked discipline serves every input and
    # is documented not to be updated by the parent)
    for i, d in enumerate(discs):
        if i in failing or (n == 1 and not use_threading):
            continue
        exp = d.f(inputs[i])
        for o, v in exp.items():
            if o not in d.io.data or not _eq_data(d.io.data[o], v):
                ctx.violate("C13.discipline_data", sig, f"{d.name}.io.data[{o}]={d.io.data.get(o)} expected {v}; cfg={cfg}")
        if linearize:
            _check_jac(ctx, sig, d, inputs[i], d.jac, cfg, where="disc.jac")
    if tuple(log) != tuple(sorted(log)):
        ctx.probe("completion_order_differs_from_submission")
    ctx.case((cfg["workload"], n, n_workers, tuple(sorted(failing)), tuple(log)), nontrivial=n >= 2 and n_workers >= 2)
    ctx.sample = {"cfg": cfg, "callback_order": log, "n_results": len(out)}
    ctx.sim_time += clock.covered


def _check_jac(ctx, sig, d, inp, jac, cfg, where="returned"):
    exp = d.df(inp)
    for o in d.h_out:
        for i in d.h_in:
            try:
                got = _dense(jac[o][i])
            except (KeyError, TypeError):
                ctx.violate("C13.jacobian", sig, f"{where} Jacobian of {d.name} lacks [{o}][{i}]; cfg={cfg}")
            if not array_equal(got, exp[o][i]):
                ctx.violate("C13.jacobian", sig, f"{where} d{o}/d{i} of {d.name} = {got} expected {exp[o][i]}; cfg={cfg}")


# ------------------------------------------------------------------------------------
# T2c: MDOParallelChain / MDOAdditiveChain
# ------------------------------------------------------------------------------------
def t2_parallel_chain(ctx, use_threading=True):
    from gemseo.core.chains.additive_chain import MDOAdditiveChain
    from gemseo.core.chains.parallel_chain import MDOParallelChain

    t = ctx.tape
    mode = "thread" if use_threading else "proc"
    additive = t.flag(0.4, "additive")
    n = t.randint(2, 4, "n_disc")
    n_workers = t.randint(1, 4, "n_workers")
    deep = t.flag(0.5, "use_deep_copy") and not additive
    durations = [t.choice(3, f"dur[{i}]") for i in range(n)]
    n_calls = t.randint(1, 3, "n_calls")
    preempt = t.weighted([3, 1, 1], "preempt") if use_threading else 0
    clock = SimClock()
    state = {}

    def hook(disc, kind, snap):
        if kind == "run":
            state["eng"].work(durations[int(disc.name[1:])])

    discs, sizes = draw_disciplines(t, n, hook, shared_output="s" if additive else None)
    overlap = (not additive) and t.flag(0.35, "overlapping_output")
    if overlap:
        # two disciplines with the same inputs produce the same output name "w" (not summed): the chain gives
        # priority to the last one, for the data and for the Jacobian alike
        first, last = discs[0], discs[-1]
        szs = dict(first.h_sizes)
        szs["w"] = 2
        discs[0] = HDisc(first.name, first.h_in, [*first.h_out, "w"], szs, salt=first.h_salt, hook=hook)
        szl = dict(last.h_sizes)
        szl.update({k: first.h_sizes[k] for k in first.h_in})
        szl["w"] = 2
        discs[-1] = HDisc(last.name, first.h_in, [*last.h_out, "w"], szl, salt=last.h_salt + 5, hook=hook)
    # with use_deep_copy=True every discipline owns its input arrays: a body overwriting them in place must not
    # be seen by the other disciplines nor by the caller (execute-only: the Jacobian is taken at io.data)
    inplace = bool(deep) and t.flag(0.5, "inplace_bodies")
    if inplace:
        for d in discs:
            d.h_inplace = True
    cfg = {"workload": ("T2c-additive" if additive else "T2c-parallel-chain") + "/" + mode, "n_disc": n, "overlapping_output": bool(overlap), "inplace_bodies": inplace,
           "n_workers": n_workers, "deep_copy": bool(deep), "durations": durations, "preempt": preempt,
           "disciplines": [(d.name, d.h_in, d.h_out) for d in discs]}
    ctx.event("cfg", canon(cfg))
    sig = cfg["workload"]
    used_inputs = sorted({i for d in discs for i in d.h_in})
    kw = dict(preempt_mean=(0, 40, 8)[preempt], trace_files=TRACE_FILES) if use_threading else {}
    with engine(ctx, mode, clock, with_locks=True, **kw) as eng:
        state["eng"] = eng
        if additive:
            chain = MDOAdditiveChain(discs, outputs_to_sum=["s"], use_threading=use_threading, n_processes=n_workers)
        else:
            chain = MDOParallelChain(discs, use_threading=use_threading, n_processes=n_workers, use_deep_copy=deep)
        chain.set_cache(chain.CacheType.NONE)
        for c in range(n_calls):
            with t.frame("call"):
                x = draw_input(t, {k: sizes[k] for k in used_inputs}, f"x{c}")
                lin = t.flag(0.5, "linearize") and not inplace
                passed = {k: v.copy() for k, v in x.items()}
                try:
                    if lin:
                        jac = chain.linearize(passed, compute_all_jacobians=True)
                        data = chain.io.data
                    else:
                        data = chain.execute(passed)
                        jac = None
                except Deadlock as d:
                    ctx.violate("C13.liveness", sig + " deadlock", str(d))
                if inplace:
                    ctx.probe("inplace_bodies_with_deep_copy")
                    for k, v in x.items():
                        if not _eq_data(passed[k], v) or not _eq_data(chain.io.data[k], v):
                            ctx.violate("C13.chain_data", sig + " inplace", f"call {c}: the caller's/chain's input {k} was overwritten by a discipline body: passed={passed[k]} chain={chain.io.data[k]} x={v}; cfg={cfg}")
                ctx.event("call", c, lin, canon(x), canon({k: data[k] for k in sorted(chain.io.output_grammar)}))
                # sequential oracle
                exp = {}
                expj = {}
                for d in discs:
                    fo = d.f(x)
                    dfo = d.df(x)
                    for o in d.h_out:
                        if o == "s" and additive:
                            exp[o] = exp.get(o, 0) + fo[o]
                            for i in d.h_in:
                                expj.setdefault(o, {})
                                expj[o][i] = expj[o].get(i, 0) + dfo[o][i]
                        else:
                            exp[o] = fo[o]
                            expj[o] = dfo[o]
                for o, v in exp.items():
                    if o not in data or not _eq_data(data[o], v):
                        ctx.violate("C13.chain_data", sig, f"call {c}: {o}={data.get(o)} expected {v}; x={x}; cfg={cfg}")
                if lin:
                    for o in exp:
                        for i in used_inputs:
                            try:
                                got = _dense(jac[o][i])
                            except KeyError:
                                ctx.violate("C13.chain_jacobian", sig, f"call {c}: no block d{o}/d{i}; cfg={cfg}")
                            e = expj[o].get(i)
                            if e is None:
                                e = zeros((len(exp[o]), sizes[i]))
                            if got.shape != e.shape or not array_equal(got, e):
                                ctx.violate("C13.chain_jacobian", sig, f"call {c}: d{o}/d{i}={got} expected {e}; x={x}; cfg={cfg}")
        if eng.alive():
            ctx.violate("C13.liveness", sig, f"workers alive: {eng.alive()}")
        if use_threading and eng.s.n_preempt:
            ctx.fire("line_preemption", eng.s.n_preempt)
    ctx.case((sig, n, n_workers, n_calls, ctx.digest()), nontrivial=n_workers >= 2)
    ctx.sample = {"cfg": cfg, "n_calls": n_calls}


# ------------------------------------------------------------------------------------
# T2d: MDAJacobi with a thread pool versus n_processes=1
# ------------------------------------------------------------------------------------
def _coupled(t, hook):
    """Two or three contractive coupled disciplines."""
    n = t.randint(2, 3, "n_coupled")
    sizes = {"x": 1}
    for i in range(n):
        sizes[f"y{i}"] = t.randint(1, 2, f"size_y{i}")
    discs = []
    shared = t.flag(0.4, "output_computed_by_two_disciplines")
    if shared:
        sizes["s"] = 2  # a non-coupling output computed by two disciplines: the last one in the list wins
    for i in range(n):
        ins = ["x"] + [f"y{j}" for j in range(n) if j != i and (n == 2 or t.flag(0.7, f"dep[{i}][{j}]") or j == (i + 1) % n)]
        outs = [f"y{i}"] + (["s"] if shared and i in (0, n - 1) else [])
        d = HDisc(f"D{i}", ins, outs, sizes, salt=i, hook=hook)
        # contraction: scale the coupling blocks
        for (o, inp), a in list(d._coef.items()):
            if inp != "x":
                d._coef[o, inp] = a * 0.3
        d._c = {o: c * 0.2 for o, c in d._c.items()}
        discs.append(d)
    return discs, sizes


def t2_jacobi(ctx, use_threading=True):
    from gemseo.mda.jacobi import MDAJacobi

    t = ctx.tape
    mode = "thread" if use_threading else "proc"
    n_workers = t.randint(2, 4, "n_workers")
    durations = [t.choice(3, f"dur[{i}]") for i in range(3)]
    accel = t.pick(["NoTransformation", "Alternate2Delta", "Secant"], "acceleration")
    max_iter = t.randint(2, 8, "max_mda_iter")
    preempt = t.weighted([3, 1], "preempt") if use_threading else 0
    clock = SimClock()
    state = {"eng": None}

    def hook(disc, kind, snap):
        if kind == "run" and state["eng"] is not None:
            state["eng"].work(durations[int(disc.name[1:])])

    # identical tape prefix for both systems: draw once, build twice
    mark = len(t.rec)
    discs, sizes = _coupled(t, hook)
    topo = [(d.name, d.h_in) for d in discs]

    def rebuild():
        out = []
        for d in discs:
            c = HDisc(d.name, d.h_in, d.h_out, d.h_sizes, salt=d.h_salt, hook=hook)
            c._coef = {k: v.copy() for k, v in d._coef.items()}
            c._c = dict(d._c)
            out.append(c)
        return out

    x = array([t.randint(-2, 2, "x") / 2.0])
    cfg = {"workload": "T2d-jacobi/" + mode, "n_workers": n_workers, "topology": topo, "acceleration": accel,
           "max_mda_iter": max_iter, "durations": durations, "preempt": preempt}
    ctx.event("cfg", canon(cfg))
    sig = cfg["workload"]
    common_kw = dict(max_mda_iter=max_iter, tolerance=1e-14, acceleration_method=accel)
    seq = MDAJacobi(rebuild(), n_processes=1, **common_kw)
    seq.set_cache(seq.CacheType.NONE)
    ref = dict(seq.execute({"x": x.copy()}))
    ref_hist = list(seq.residual_history)
    kw = dict(preempt_mean=(0, 25)[preempt], trace_files=TRACE_FILES) if use_threading else {}
    with engine(ctx, mode, clock, with_locks=True, **kw) as eng:
        par = MDAJacobi(rebuild(), n_processes=n_workers, use_threading=use_threading, **common_kw)
        par.set_cache(par.CacheType.NONE)
        state["eng"] = eng
        try:
            got = dict(par.execute({"x": x.copy()}))
        except Deadlock as d:
            ctx.violate("C13.liveness", sig + " deadlock", str(d))
        finally:
            state["eng"] = None
        hist = list(par.residual_history)
        if use_threading and eng.s.n_preempt:
            ctx.fire("line_preemption", eng.s.n_preempt)
    ctx.event("res", canon({k: got[k] for k in sorted(sizes)}), canon(hist))
    for k in sorted(sizes):
        if not _eq_data(got[k], ref[k]):
            ctx.violate("C13.mda_equivalence", sig, f"{k}: parallel {got[k]} != sequential {ref[k]}; cfg={cfg}")
    if hist != ref_hist:
        ctx.violate("C13.mda_equivalence", sig + " residuals", f"residual history {hist} != {ref_hist}; cfg={cfg}")
    ctx.case((sig, tuple(map(str, topo)), n_workers, accel, max_iter, ctx.digest()), nontrivial=True)
    ctx.sample = {"cfg": cfg, "residual_history": hist}


# ------------------------------------------------------------------------------------
# T3: clones sharing a MemoryFullCache under line-level pre-emption (threads)
# ------------------------------------------------------------------------------------
def t3_shared_cache(ctx):
    from gemseo.caches.memory_full_cache import MemoryFullCache
    from gemseo.core.parallel_execution.disc_parallel_execution import DiscParallelExecution
    from gemseo.core.parallel_execution.disc_parallel_linearization import DiscParallelLinearization

    t = ctx.tape
    n = t.randint(2, 5, "n_clones")
    n_workers = t.randint(2, 4, "n_workers")
    shared_mem = t.flag(0.3, "is_memory_shared")
    preempt = t.weighted([1, 2, 2], "preempt")
    rounds = t.randint(1, 3, "rounds")
    n_values = t.randint(1, 3, "n_distinct_inputs")
    tol = 0.0
    durations = [t.choice(3, f"dur[{i}]") for i in range(n)]
    clock = SimClock()
    state = {}

    def hook(disc, kind, snap):
        if kind == "run":
            state["eng"].work(durations[int(disc.name[1:])])

    sizes = {"a": 2, "y": 2}
    # (salt 1: the Jacobian depends on the input, so a Jacobian stored in the entry of another input is visible)
    discs = [HDisc(f"D{i}", ["a"], ["y"], sizes, salt=1, hook=hook) for i in range(n)]
    for d in discs:
        d.add_differentiated_inputs()
        d.add_differentiated_outputs()
    linearized = set()
    cfg = {"workload": "T3-shared-cache/thread", "n_clones": n, "n_workers": n_workers, "shared_memory": bool(shared_mem),
           "preempt": preempt, "rounds": rounds, "durations": durations}
    sig = cfg["workload"]
    submitted = set()
    kinds = []
    with engine(ctx, "thread", clock, with_locks=True, preempt_mean=(0, 30, 6)[preempt], trace_files=TRACE_FILES) as eng:
        state["eng"] = eng
        cache = MemoryFullCache(is_memory_shared=shared_mem, tolerance=tol)
        for d in discs:
            d.cache = cache
        par_exec = DiscParallelExecution(discs, n_processes=n_workers, use_threading=True)
        par_lin = DiscParallelLinearization(discs, n_processes=n_workers, use_threading=True)
        for r in range(rounds):
            # a round of executions, or of linearisations (outputs and Jacobians then go to the
            # shared cache from different threads)
            lin = t.flag(0.5, f"linearize[{r}]")
            kinds.append("lin" if lin else "exec")
            xs = [float(t.choice(n_values, f"x[{r}][{i}]")) for i in range(n)]
            inputs = [{"a": array([x, 1.0 - x])} for x in xs]
            submitted.update(xs)
            try:
                outs = (par_lin if lin else par_exec).execute(inputs)
            except Deadlock as d:
                ctx.violate("C13.liveness", sig + " deadlock", str(d))
            if lin:
                linearized.update(xs)
                ctx.event("round", r, "lin", tuple(xs), canon([None if o is None else _dense(o["y"]["a"]) for o in outs]))
                for x, inp, o in zip(xs, inputs, outs):
                    exp = discs[0].df(inp)["y"]["a"]
                    if o is None or not array_equal(_dense(o["y"]["a"]), exp):
                        ctx.violate("C13.shared_cache_output", sig + " jacobian", f"round {r}: x={x} dy/da={None if o is None else _dense(o['y']['a'])} expected {exp}; cfg={cfg} rounds={kinds}")
                for x, inp, d in zip(xs, inputs, discs):
                    if not _eq_data(d.io.data["y"], discs[0].f(inp)["y"]):
                        ctx.violate("C13.shared_cache_output", sig, f"round {r}: after linearisation {d.name}.y={d.io.data['y']} for x={x}; cfg={cfg} rounds={kinds}")
            else:
                ctx.event("round", r, "exec", tuple(xs), canon([None if o is None else o["y"] for o in outs]))
                for x, inp, o in zip(xs, inputs, outs):
                    exp = discs[0].f(inp)["y"]
                    if o is None or not _eq_data(o["y"], exp):
                        ctx.violate("C13.shared_cache_output", sig, f"round {r}: x={x} y={None if o is None else o['y']} expected {exp}; cfg={cfg} rounds={kinds}")
        if eng.s.n_preempt:
            ctx.fire("line_preemption", eng.s.n_preempt)
        entries = list(cache.get_all_entries())
    seen = []
    for e in entries:
        if not e.inputs or "a" not in e.inputs:
            ctx.violate("C13.shared_cache_wellformed", sig, f"cache entry without inputs: {e}; cfg={cfg} rounds={kinds}")
        xa = array(e.inputs["a"])
        seen.append(float(xa[0]))
        if float(xa[0]) in linearized and not e.jacobian:
            ctx.violate("C13.shared_cache_wellformed", sig + " jacobian missing", f"the input a={xa} was linearised but its cache entry holds no Jacobian (a sequential run stores it); cfg={cfg} rounds={kinds}")
        exp = discs[0].f({"a": xa})["y"]
        if not e.outputs or "y" not in e.outputs or not _eq_data(e.outputs["y"], exp):
            ctx.violate("C13.shared_cache_wellformed", sig, f"cache entry for a={xa} holds outputs {e.outputs}, expected y={exp}; cfg={cfg} rounds={kinds}")
        if e.jacobian:
            expj = discs[0].df({"a": xa})["y"]["a"]
            try:
                gotj = _dense(e.jacobian["y"]["a"])
            except (KeyError, TypeError):
                gotj = None
            if gotj is None or not array_equal(gotj, expj):
                ctx.violate("C13.shared_cache_wellformed", sig + " jacobian", f"cache entry for a={xa} holds the Jacobian {e.jacobian}, expected dy/da={expj}; cfg={cfg} rounds={kinds}")
            ctx.probe("shared_cache_entry_with_jacobian")
    if sorted(seen) != sorted(submitted):
        ctx.violate("C13.shared_cache_wellformed", sig, f"cache holds entries for {sorted(seen)} but distinct submitted inputs are {sorted(submitted)}; cfg={cfg} rounds={kinds}")
    total_runs = sum(d.n_run for d in discs)
    if total_runs > len(submitted):
        ctx.probe("same_input_computed_twice_concurrently")
    ctx.event("cache", tuple(sorted(seen)), total_runs)
    ctx.case((sig, n, n_workers, bool(shared_mem), preempt, tuple(kinds), ctx.digest()), nontrivial=True)
    ctx.sample = {"cfg": cfg, "rounds": kinds, "entries": sorted(seen), "body_runs": total_runs}


# ------------------------------------------------------------------------------------
# T1 / P1: CallableParallelExecution on harness callables
# ------------------------------------------------------------------------------------
class HarnessError1(Exception):
    pass


class ReRaised(KeyError):
    pass


FAIL_KINDS = [None, ValueError, HarnessError1, ReRaised, ZeroDivisionError, SystemExit]  # (wrapped code calling sys.exit() is a failing task too)


def t1_pool(ctx, mode):
    """One executor, one to three successive execute() calls on it (state must not leak between calls)."""
    import gemseo.core.parallel_execution.callable_parallel_execution as cpe

    t = ctx.tape
    n_tasks = t.randint(0, 7, "n_tasks")
    n_workers = t.randint(1, 4, "n_workers")
    one_callable = t.flag(0.5, "one_callable") or n_tasks == 0
    reraise = t.flag(0.3, "reraise")
    n_cb = t.weighted([2, 5, 2], "n_callbacks")
    cb_iterable = t.flag(0.5, "cb_iterable")
    wait = t.flag(0.15, "wait_between_fork")
    submitted_cb = t.flag(0.3, "task_submitted_cb")
    fault_budget = t.flag(0.6, "faults_on")
    n_rounds = 1 + t.weighted([5, 3, 1], "n_rounds")
    starve = mode == "thread" and t.flag(0.1, "starve_worker")
    clock = SimClock()
    tag = "T1" if mode == "thread" else "P1"
    cfg = {"workload": tag, "n_tasks": n_tasks, "n_workers": n_workers, "one_callable": one_callable, "reraise": reraise,
           "n_callbacks": n_cb, "wait": wait, "n_rounds": n_rounds}
    ctx.event("cfg", canon(cfg))
    state = {"durations": [], "fails": [], "inputs": [], "body_done": []}
    sig = f"{tag} n_tasks={'0' if n_tasks == 0 else '>0'}"
    all_orders = []
    rounds_desc = []
    with engine(ctx, mode, clock, with_locks=False) as eng:
        if starve:
            eng.s.starve.add("w0")
            ctx.fire("stalled_worker")

        def make(i_fixed):
            def f(x):
                i = state["inputs"].index(x)
                eng.work(state["durations"][i])
                state["body_done"].append(i)
                if state["fails"][i]:
                    raise FAIL_KINDS[state["fails"][i]](f"injected failure of task {i}")
                return x * 10 + (0 if i_fixed is None else i_fixed)
            return f

        workers = [make(None)] if one_callable else [make(i) for i in range(n_tasks)]
        pool = cpe.CallableParallelExecution(
            workers, n_processes=n_workers, use_threading=mode == "thread",
            wait_time_between_fork=0.5 if wait else 0.0,
            exceptions_to_re_raise=(KeyError,) if reraise else (),
        )
        for rnd in range(n_rounds):
            with t.frame("round"):
                durations = [t.choice(4, f"dur[{rnd}][{i}]") for i in range(n_tasks)]
                fails = [(t.weighted([12, 3, 2, 2, 1, 1], f"fail[{rnd}][{i}]") if fault_budget else 0) for i in range(n_tasks)]
                inputs = [1000 * rnd + 3 * i + 1 for i in range(n_tasks)]
                state.update(durations=durations, fails=fails, inputs=inputs, body_done=[])

                def expected(i):
                    return inputs[i] * 10 + (0 if one_callable else i)

                logs = [[] for _ in range(n_cb)]
                cbs = [(lambda i, o, log=log: log.append((i, o))) for log in logs]
                cb_arg = cbs[0] if (n_cb == 1 and not cb_iterable) else cbs
                submitted = []
                out = exc = None
                try:
                    out = pool.execute(
                        inputs, exec_callback=cb_arg,
                        task_submitted_callback=(lambda: submitted.append(1)) if submitted_cb else None,
                    )
                except Deadlock as d:
                    ctx.violate("C13.liveness", f"{tag} deadlock", str(d))
                except Exception as e:  # noqa: BLE001
                    exc = e
                alive = eng.alive()
                if mode == "proc":
                    acts = list(eng.e.actions)  # the engine starts a new action list at every execute()
                    body_done = [i for kind, i in acts if kind == "start"]
                    completion = [i for kind, i in acts if kind == "complete"]
                else:
                    body_done = list(state["body_done"])
                    completion = None
                failing = {i for i in range(n_tasks) if fails[i]}
                ctx.fire("task_raises", len([i for i in body_done if i in failing]))
                ctx.fire("long_task", len([i for i in body_done if durations[i] >= 2]))
                reraisable = {i for i in failing if issubclass(FAIL_KINDS[fails[i]], KeyError)} if reraise else set()
                ctx.event("out", rnd, canon(out), canon(exc), canon(logs), tuple(body_done))
                rdesc = {"durations": durations, "fails": [FAIL_KINDS[k].__name__ if k else None for k in fails]}
                rounds_desc.append(rdesc)
                rsig = sig + (" round>0" if rnd else "")
                if exc is not None:
                    if not reraisable or not isinstance(exc, ReRaised):
                        ctx.violate("C13.returns", rsig + f" raised={type(exc).__name__}",
                                    f"round {rnd}: execute raised {exc!r} but no re-raisable failure was injected; cfg={cfg} rounds={rounds_desc}")
                    for log in logs:
                        seen = set()
                        for i, o in log:
                            if i in seen or i in failing or o != expected(i):
                                ctx.violate("C13.callback", rsig, f"round {rnd}: callback log {log} under re-raise; cfg={cfg} rounds={rounds_desc}")
                            seen.add(i)
                    ctx.probe("reraised")
                    if rnd + 1 < n_rounds:
                        ctx.probe("execute_again_after_reraise")
                else:
                    if reraisable:
                        ctx.violate("C13.reraise", rsig, f"round {rnd}: a re-raisable failure was injected for tasks {sorted(reraisable)} but execute returned {out}; cfg={cfg}")
                    exp = [None if i in failing else expected(i) for i in range(n_tasks)]
                    if out != exp:
                        ctx.violate("C13.positional", rsig, f"round {rnd}: outputs {out} != expected {exp}; cfg={cfg} rounds={rounds_desc}")
                    for log in logs:
                        if sorted(log) != sorted((i, expected(i)) for i in range(n_tasks) if i not in failing):
                            ctx.violate("C13.callback", rsig, f"round {rnd}: callback log {log}; failing={sorted(failing)}; cfg={cfg} rounds={rounds_desc}")
                        if completion is not None and [i for i, _ in log] != [i for i in completion if i not in failing]:
                            ctx.violate("C13.callback", rsig + " order", f"round {rnd}: callback order {log} differs from the completion order {completion} chosen by the schedule; cfg={cfg}")
                    if alive:
                        ctx.violate("C13.liveness", rsig, f"workers still alive after execute returned: {alive}")
                    if submitted_cb and len(submitted) != 1:
                        ctx.violate("C13.callback", rsig + " task_submitted", f"task_submitted_callback called {len(submitted)} times")
                order = tuple(i for i, _ in logs[0]) if logs else tuple(completion or body_done)
                if order != tuple(sorted(order)):
                    ctx.probe("completion_order_differs_from_submission")
                if tuple(body_done) != tuple(sorted(body_done)):
                    ctx.probe("body_order_differs_from_submission")
                all_orders.append((tuple(sorted(failing)), tuple(body_done), order))
                if completion is not None and exc is None and 2 <= n_tasks <= 4 and len(completion) == n_tasks:
                    ctx.collect("completion_orders", (n_tasks, min(n_workers, n_tasks), tuple(completion)))
                elif mode == "thread" and exc is None and 2 <= n_tasks <= 4 and len(body_done) == n_tasks:
                    ctx.collect("body_completion_orders", (n_tasks, min(n_workers, n_tasks), tuple(body_done)))
    ctx.sim_time += clock.covered
    ctx.case((tag, n_tasks, n_workers, tuple(all_orders)), nontrivial=n_tasks >= 2 and n_workers >= 2)
    ctx.sample = {"cfg": cfg, "rounds": rounds_desc, "orders(failing, body, completion/callback)": [list(map(list, o)) for o in all_orders]}


def order_coverage(pm):
    """Covered fraction of the completion orders a FIFO pool allows, for 2-4 tasks.

    With w workers and n tasks started in index order, the k-th completion (k = 0, 1, ...) can be any
    started and unfinished task: min(n - k, w) choices, so the pool allows prod_k min(n - k, w) orders.
    """
    out = {}
    for name in ("completion_orders", "body_completion_orders"):
        seen = pm["collected"].get(name, set())
        per = {}
        for n, w, order in seen:
            per.setdefault((n, w), set()).add(order)
        table = {}
        for (n, w), orders in sorted(per.items()):
            allowed = 1
            for k in range(n):
                allowed *= min(n - k, w)
            table[f"n_tasks={n},n_workers={w}"] = {"allowed": allowed, "reached": len(orders), "all_reached": len(orders) >= allowed}
        if table:
            out[name + "_coverage"] = table
    return out


# ------------------------------------------------------------------------------------
# P5b: one forked discipline serving many inputs, some of which make it fail
# ------------------------------------------------------------------------------------
def p5b_one_discipline_many_inputs(ctx):
    from gemseo.core.parallel_execution.disc_parallel_execution import DiscParallelExecution

    t = ctx.tape
    n_inputs = t.randint(2, 6, "n_inputs")
    n_workers = t.randint(2, 4, "n_workers")
    faults_on = t.flag(0.5, "faults_on")
    fails = [faults_on and t.flag(0.25, f"fail[{i}]") for i in range(n_inputs)]
    sizes = {"a": 2, "y": 2}

    def hook(disc, kind, snap):
        if kind == "run" and any(fails[i] and abs(float(snap["a"][0]) - float(i)) < 1e-12 for i in range(n_inputs)):
            raise InjectedFailure("injected failure for this input")

    d = HDisc("D0", ["a"], ["y"], sizes, salt=3, hook=hook)
    d.set_cache(d.CacheType.NONE)
    inputs = [{"a": array([float(i), 0.5])} for i in range(n_inputs)]
    cfg = {"workload": "P5b-one-discipline-many-inputs/proc", "n_inputs": n_inputs, "n_workers": n_workers, "failing": [i for i in range(n_inputs) if fails[i]]}
    ctx.event("cfg", canon(cfg))
    sig = cfg["workload"]
    clock = SimClock()
    log = []
    with engine(ctx, "proc", clock) as eng:
        par = DiscParallelExecution([d], n_processes=n_workers)
        out = par.execute(inputs, exec_callback=lambda i, o: log.append(i))
        actions = list(eng.e.actions)
    failing = {i for i in range(n_inputs) if fails[i]}
    ctx.fire("task_raises", len(failing))
    ctx.event("out", canon([None if o is None else o["y"] for o in out]), tuple(log), tuple(actions))
    collateral = [i for i in range(n_inputs) if i not in failing and out[i] is None]
    if collateral:
        ctx.violate("C13.positional", sig + " failure-spreads-to-later-tasks-of-the-same-worker",
                    f"tasks {collateral} did not fail but their slots are None (failing tasks: {sorted(failing)}): a discipline that failed in a worker process stays FAILED there and "
                    f"every later task served by that process fails too; schedule={actions}; cfg={cfg}", fatal=False)
    for i in range(n_inputs):
        if i in failing:
            if out[i] is not None:
                ctx.violate("C13.positional", sig, f"slot {i} of a failing task holds {out[i]}; cfg={cfg}")
        elif out[i] is not None and not _eq_data(out[i]["y"], d.f(inputs[i])["y"]):
            ctx.violate("C13.positional", sig, f"slot {i}: y={out[i]['y']} expected {d.f(inputs[i])['y']}; schedule={actions}; cfg={cfg}")
    ok = sorted(i for i in range(n_inputs) if out[i] is not None)
    if sorted(log) != ok:
        ctx.violate("C13.callback", sig, f"callback indices {log} but successful slots are {ok}; cfg={cfg}")
    completes = [i for k, i in actions if k == "complete"]
    if completes != sorted(completes):
        ctx.probe("completion_order_differs_from_submission")
    ctx.case((sig, n_inputs, n_workers, tuple(sorted(failing)), tuple(actions)), nontrivial=True)
    ctx.sample = {"cfg": cfg, "schedule": actions, "none_slots": [i for i in range(n_inputs) if out[i] is None]}


# ------------------------------------------------------------------------------------
# P6: gemseo.utils.multiprocessing.execution.execute - the same call in sequential and parallel mode
# ------------------------------------------------------------------------------------
def p6_execute_helper(ctx):
    from gemseo.utils.multiprocessing.execution import execute

    t = ctx.tape
    n_tasks = t.randint(1, 6, "n_tasks")
    n_workers = t.randint(2, 4, "n_workers")
    n_cb = t.randint(1, 2, "n_callbacks")
    inputs = [5 * i + 2 for i in range(n_tasks)]
    cfg = {"workload": "P6-execute-helper", "n_tasks": n_tasks, "n_workers": n_workers, "n_callbacks": n_cb}
    ctx.event("cfg", canon(cfg))
    sig = cfg["workload"]

    def worker(x):
        return x * 7 + 1

    res = {}
    clock = SimClock()
    for label, n_proc in (("sequential", 1), ("parallel", n_workers)):
        logs = [[] for _ in range(n_cb)]
        cbs = [(lambda i, o, log=log: log.append((i, o))) for log in logs]
        if n_proc == 1:
            out = execute(worker, cbs, 1, inputs)
        else:
            with engine(ctx, "proc", clock) as eng:
                out = execute(worker, cbs, n_proc, inputs)
                order = [i for k, i in eng.e.actions if k == "complete"]
        res[label] = (out, logs)
    exp_out = [worker(x) for x in inputs]
    exp_log = sorted((i, worker(x)) for i, x in enumerate(inputs))
    ctx.event("res", canon(res["sequential"]), canon(res["parallel"]), tuple(order))
    for label, (out, logs) in res.items():
        if out != exp_out:
            ctx.violate("C13.positional", f"{sig} {label}", f"{label} outputs {out} != {exp_out}; cfg={cfg}")
        for log in logs:
            if sorted(log) != exp_log:
                ctx.violate("C13.callback", f"{sig} {label} callback-index",
                            f"{label} mode: callbacks received {log}, expected each (index, output) once: {exp_log}; cfg={cfg}")
    if order != sorted(order):
        ctx.probe("completion_order_differs_from_submission")
    ctx.case((sig, n_tasks, n_workers, tuple(order)), nontrivial=n_tasks >= 2)
    ctx.sample = {"cfg": cfg, "completion_order": order}
