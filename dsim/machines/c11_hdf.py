"""C11: store / export / reopen machine on the incremental HDF5 history.

Operations (tape): store a new point, store new outputs at an existing point, export with
append, export without append, export through OptimizationProblem.to_hdf(append=True) (what the
scenario backup does), reload-and-compare, restart (replace the in-memory database by the file's
content and continue on the same file, as a restarted scenario does).  Model: an ordered dict.
"""

from __future__ import annotations

import math

import os

import numpy as np
from numpy import array, asarray

from ..core import canon

PROP = "C11"
NAME = "c11_hdf"
RUNS = {"quick": 6000, "thorough": 200000}
TIMEOUT = 120
CHUNK = 100
RULE = (
    "each run is a tape-chosen history of up to 25 operations {store new point, store new outputs at an existing point, export append / "
    "non-append / through OptimizationProblem.to_hdf, reload-and-compare, restart from the file} on one database and one or two files "
    "(root or nested node, float or integer points, values: python float, 0-d, size-1, vector, matrix, list, empty entry); distinct by the "
    "decoded operation list; non-trivial when at least one append export followed an earlier export"
)
COMPONENTS_REAL = ["Database", "HDFDatabase (pending arrays, append bookkeeping)", "OptimizationProblem.to_hdf/from_hdf", "DesignSpace.to_hdf/from_hdf", "h5py/HDF5 on /dev/shm"]
COMPONENTS_STUB = ["the caller (harness operations)"]
ASSUMPTIONS = [
    "values are compared after canonicalisation: python float == numpy scalar == 0-d array; a list equals the 1-D array of its items; array shapes must match",
    "alphabet restricted by the statement to new points and new outputs at existing points (no overwrite of an exported value, no filter/clear between exports)",
    "no I/O error or torn write is injected (nothing is promised after one); CSV/text formats are not decided here",
]

NAMES = ["f", "g", "h", "@f", "@g", "obs", "Zeta", "alpha"]  # ("Zeta" < "alpha" in ASCII order, not in case-insensitive order)


def canon_value(v):
    a = asarray(v)
    if a.ndim == 0:
        return ("scalar", repr(float(a)))
    return ("array", a.shape, tuple(repr(float(x)) for x in a.astype(float).ravel()))


def dump(db):
    return [
        (str(x.wrapped_array.dtype.kind), tuple(x.wrapped_array.tolist()), tuple((k, canon_value(v)) for k, v in sorted(o.items())))
        for x, o in db.items()
    ]


def model_dump(model):
    return [(kind, x, tuple((k, canon_value(v)) for k, v in sorted(o.items()))) for (kind, x), o in model.items()]


def gen_value(t, tag):
    k = t.choice(7, tag + ".kind")
    r = lambda s: t.randint(-8, 8, f"{tag}.{s}") / 4.0  # noqa: E731
    if k == 0:
        return float(r("v"))
    if k == 1:
        return array([r("v")])
    if k == 2:
        return array([r(f"v{i}") for i in range(t.randint(2, 3, tag + ".n"))])
    if k == 3:
        return array([[r("a"), 1.0], [2.0, r("b")]])
    if k == 4:
        return [1.0, r("v")]
    if k == 5:
        return array(r("v"))  # 0-d
    return array([[r("a"), r("b"), 0.5]])  # 1 x 3 Jacobian-like


def solved_problem_roundtrip(ctx):
    """A problem solved by a (sequential) DOE, written to HDF5 and read back: description, functions, solution."""
    import numpy as np

    from gemseo.algos.design_space import DesignSpace
    from gemseo.algos.doe.factory import DOELibraryFactory
    from gemseo.algos.optimization_problem import OptimizationProblem
    from gemseo.core.mdo_functions.mdo_function import MDOFunction

    t = ctx.tape
    maximize = t.flag(0.4, "maximize")
    dim = t.randint(1, 3, "dim")
    n_pts = t.randint(1, 5, "n_points")
    with_eq = t.flag(0.5, "equality")
    with_obs = t.flag(0.5, "observable")
    eval_jac = t.flag(0.5, "eval_jac")
    node = t.pick(["", "p/q"], "node")
    # points on a coarse grid including the origin, so that exact zeros (f_opt = 0.0, a constraint value 0.0,
    # optimum at the first point) occur
    pts = [[t.randint(-2, 2, f"p[{i}][{j}]") / 2.0 for j in range(dim)] for i in range(n_pts)]
    sgn = -1.0 if maximize else 1.0
    ds = DesignSpace()
    ds.add_variable("x", size=dim, lower_bound=-2.0, upper_bound=2.0, value=array([0.0] * dim))
    linear = t.flag(0.3, "linear_problem")
    if linear:
        # a linear program: every function is an MDOLinearFunction and the problem is flagged linear
        from gemseo.core.mdo_functions.mdo_linear_function import MDOLinearFunction

        p = OptimizationProblem(ds, is_linear=True)
        p.objective = MDOLinearFunction(sgn * np.arange(1.0, dim + 1.0), "f", value_at_zero=np.array([0.0]))
        p.add_constraint(MDOLinearFunction(np.vstack([np.eye(dim)[0], np.ones(dim)]), "g", value_at_zero=np.array([-1.0, 0.0])), constraint_type="ineq")
        if with_eq:
            p.add_constraint(MDOLinearFunction((np.eye(dim)[0] - np.eye(dim)[-1])[None, :], "h"), constraint_type="eq")
        if with_obs:
            p.add_observable(MDOLinearFunction(3.0 * np.eye(dim)[:1], "o"))
    else:
        p = OptimizationProblem(ds)
        p.objective = MDOFunction(lambda x: sgn * float(x @ x), "f", jac=lambda x: sgn * 2 * x, expr="x.x", input_names=["x"])
        p.add_constraint(MDOFunction(lambda x: array([x[0] - 1.0, x.sum()]), "g", jac=lambda x: np.vstack([np.eye(dim)[0], np.ones(dim)])), constraint_type="ineq")
        if with_eq:
            p.add_constraint(MDOFunction(lambda x: array([x[0] - x[-1]]), "h", jac=lambda x: (np.eye(dim)[0] - np.eye(dim)[-1])[None, :]), constraint_type="eq")
        if with_obs:
            p.add_observable(MDOFunction(lambda x: array([3.0 * x[0]]), "o", jac=lambda x: 3.0 * np.eye(dim)[:1]))
    if t.flag(0.3, "non_default_settings"):
        p.tolerances.inequality = 1e-3
        p.tolerances.equality = 5e-3
        p.differentiation_method = p.DifferentiationMethod.FINITE_DIFFERENCES
        p.differentiation_step = 1e-5
    if maximize:
        p.minimize_objective = False
    DOELibraryFactory().execute(p, algo_name="CustomDOE", samples=array(pts), eval_jac=eval_jac)
    path = str(ctx.scratch / "problem.h5")
    cfg = {"family": "solved problem round trip", "maximize": maximize, "dim": dim, "points": pts, "equality": with_eq, "observable": with_obs, "eval_jac": eval_jac, "node": node, "linear": bool(linear)}
    ctx.event("cfg", canon(cfg))
    sig = "problem.to_hdf/from_hdf content"
    # the file may already hold ANOTHER problem (at the root when ours goes to a node, at another node otherwise);
    # ours is then appended to the file and both must reload (wave 11, C11l)
    prior = t.flag(0.35, "file_holds_another_problem")
    cfg["prior_problem"] = bool(prior)
    other_node = "" if node else "elsewhere"
    if prior:
        ods = DesignSpace()
        ods.add_variable("z", size=2, lower_bound=0.0, upper_bound=1.0, value=array([0.25, 0.75]))
        o = OptimizationProblem(ods)
        o.objective = MDOFunction(lambda z: float(z.sum()), "fz", jac=lambda z: np.ones(2), expr="z0+z1", input_names=["z"])
        o.add_constraint(MDOFunction(lambda z: array([z[0] - 0.5]), "gz", jac=lambda z: array([[1.0, 0.0]])), constraint_type="ineq")
        DOELibraryFactory().execute(o, algo_name="CustomDOE", samples=array([[0.25, 0.75], [0.5, 0.5]]))
        o.to_hdf(path, hdf_node_path=other_node)
        ctx.probe("problem_appended_to_a_file_holding_another_problem")
    try:
        p.to_hdf(path, append=bool(prior), hdf_node_path=node)
        q = OptimizationProblem.from_hdf(path, hdf_node_path=node)
    except Exception as exc:  # noqa: BLE001
        ctx.violate("C11.problem_roundtrip", sig + f" raised={type(exc).__name__}", f"round trip raised {exc!r}; cfg={cfg}")
    if prior:
        try:
            o2 = OptimizationProblem.from_hdf(path, hdf_node_path=other_node)
            if dump(o2.database) != dump(o.database) or o2.objective.name != "fz" or [c.name for c in o2.constraints] != ["gz"]:
                ctx.violate("C11.problem_roundtrip", sig + " earlier problem of the file changed",
                            f"the problem already stored at {other_node!r} reloads differently after another problem was appended; cfg={cfg}")
        except Exception as exc:  # noqa: BLE001
            ctx.violate("C11.problem_roundtrip", sig + f" earlier problem raised={type(exc).__name__}",
                        f"the problem already stored at {other_node!r} can no longer be read: {exc!r}; cfg={cfg}")

    def same(a, b):
        # a mapping holding only None carries no information (e.g. constraints_grad without Jacobians)
        if isinstance(a, dict) and all(v is None for v in a.values()):
            a = None
        if isinstance(b, dict) and all(v is None for v in b.values()):
            b = None
        if a is None or b is None:
            return a is None and b is None
        if isinstance(a, dict):
            return isinstance(b, dict) and set(a) == set(b) and all(same(a[k], b[k]) for k in a)
        if isinstance(a, str) or isinstance(b, str):
            return a == b
        try:
            return np.array_equal(np.asarray(a, dtype=float), np.asarray(b, dtype=float))
        except (TypeError, ValueError):
            return a == b

    diffs = []
    for attr in ("is_linear", "differentiation_method", "differentiation_step"):
        if getattr(q, attr) != getattr(p, attr):
            diffs.append(f"{attr} {getattr(p, attr)!r} -> {getattr(q, attr)!r}")
    if (q.tolerances.equality, q.tolerances.inequality) != (p.tolerances.equality, p.tolerances.inequality):
        diffs.append(f"tolerances {p.tolerances} -> {q.tolerances}")
    if q.minimize_objective != p.minimize_objective:
        diffs.append(f"minimize_objective {p.minimize_objective} -> {q.minimize_objective}")
    for attr in ("name", "expr", "f_type", "dim"):
        if getattr(q.objective, attr) != getattr(p.objective, attr):
            diffs.append(f"objective.{attr} {getattr(p.objective, attr)!r} -> {getattr(q.objective, attr)!r}")
    pc = {c.name: (str(c.f_type), c.dim) for c in p.constraints}
    qc = {c.name: (str(c.f_type), c.dim) for c in q.constraints}
    if pc != qc:
        diffs.append(f"constraints {pc} -> {qc}")
    if sorted(o.name for o in p.observables) != sorted(o.name for o in q.observables):
        diffs.append("observables differ")
    if q.design_space != p.design_space:
        diffs.append("design space differs")
    if dump(q.database) != dump(p.database):
        diffs.append("database differs")
    s0, s1 = p.solution, q.solution
    if (s0 is None) != (s1 is None):
        diffs.append(f"solution {s0 is not None} -> {s1 is not None}")
    elif s0 is not None:
        for f in ("x_0", "x_opt", "f_opt", "is_feasible", "optimum_index", "n_obj_call", "n_grad_call", "n_constr_call", "status", "message",
                  "optimizer_name", "objective_name", "constraint_values", "constraints_grad", "x_opt_as_dict", "x_0_as_dict"):
            if not same(getattr(s0, f), getattr(s1, f)):
                diffs.append(f"solution.{f} {getattr(s0, f)!r} -> {getattr(s1, f)!r}")
        if s0.optimum_index == 0:
            ctx.probe("solution_with_optimum_at_first_point")
        if s0.f_opt == 0.0:
            ctx.probe("solution_with_zero_objective")
    as_dict_only = [d_ for d_ in diffs if d_.startswith(("solution.x_opt_as_dict", "solution.x_0_as_dict"))]
    if node and as_dict_only:
        ctx.violate("C11.problem_roundtrip", sig + " nested-node solution dictionaries",
                    f"problem written to the nested node {node!r}: {as_dict_only}; cfg={cfg}", fatal=False)
        diffs = [d_ for d_ in diffs if d_ not in as_dict_only]
    if diffs:
        ctx.violate("C11.problem_roundtrip", sig, f"fields changed by the round trip: {diffs[:6]}; cfg={cfg}")
    ctx.case(canon(cfg), nontrivial=n_pts >= 2)
    ctx.sample = cfg


def design_space_roundtrip(ctx):
    """A generated design space written to a file (HDF root / nested node, possibly next to other data, or the text
    format) and read back: same names in the same order, sizes, types, bounds, current values."""
    from gemseo.algos.database import Database
    from gemseo.algos.design_space import DesignSpace

    t = ctx.tape
    names_pool = ["x", "alpha", "x_1", "y2", "long_variable_name", "Z"]
    start = t.choice(len(names_pool), "first_name")
    n_vars = t.randint(1, 4, "n_vars")
    nice = [0.0, 1.0, -1.0, 0.5, 2.0, 1.0 / 3.0, 1e-7, 123456.789012345, -0.1, 1e10]
    spec = []
    ds = DesignSpace()
    for v in range(n_vars):
        with t.frame("var"):
            name = names_pool[(start + v) % len(names_pool)]
            size = t.randint(1, 3, "size")
            integer = t.flag(0.3, "integer")
            lbs, ubs, vals = [], [], []
            has_value = not t.flag(0.3, "no_current_value")
            for c in range(size):
                kind = t.weighted([5, 1, 1, 1], "bounds")
                if integer:
                    lo = t.randint(-3, 1, "ilb")
                    hi = lo + t.randint(0, 4, "ispan")
                    val = float(lo + t.choice(hi - lo + 1, "ival"))
                    lo, hi = float(lo), float(hi)
                else:
                    lo = nice[t.choice(len(nice), "lb")] - 1.0
                    hi = lo + abs(nice[t.choice(len(nice), "span")]) + 0.25
                    val = lo + (hi - lo) * t.choice(5, "val") / 4.0
                if kind in (1, 3):
                    lo = -math.inf
                if kind in (2, 3):
                    hi = math.inf
                lbs.append(lo)
                ubs.append(hi)
                vals.append(val)
            ds.add_variable(name, size=size, type_="integer" if integer else "float", lower_bound=array(lbs), upper_bound=array(ubs),
                            value=array(vals) if has_value else None)
            spec.append((name, size, "integer" if integer else "float", lbs, ubs, vals if has_value else None))
    fmt = t.weighted([3, 2, 2], "format")  # to_hdf / to_csv / to_file (extension decides)
    node = t.pick(["", "a/b", "n"], "node") if fmt == 0 else ""
    other = t.flag(0.4, "file_holds_other_data") if fmt == 0 else False
    ext = t.pick([".h5", ".hdf5", ".csv", ".txt"], "extension") if fmt == 2 else (".h5" if fmt == 0 else ".csv")
    path = str(ctx.scratch / ("space" + ext))
    cfg = {"family": "design space round trip", "variables": spec, "format": ["to_hdf", "to_csv", "to_file"][fmt], "node": node, "other_data": other, "extension": ext}
    ctx.event("cfg", canon(cfg))
    sig = "design space " + cfg["format"] + (" text" if ext in (".csv", ".txt") else " hdf")
    text = ext in (".csv", ".txt")
    try:
        if other:
            ctx.fire("file_already_holds_other_data")
            o = DesignSpace()
            o.add_variable("other", size=2, lower_bound=0.0, upper_bound=1.0, value=array([0.5, 0.5]))
            other_node = "" if node else "elsewhere"
            if t.flag(0.5, "other_is_database"):
                odb = Database(input_space=o)
                odb.store(array([0.25, 0.75]), {"f": 1.0})
                odb.to_hdf(path, hdf_node_path=other_node)
            else:
                o.to_hdf(path, hdf_node_path=other_node)
        if fmt == 0:
            ds.to_hdf(path, append=other, hdf_node_path=node)
            back = DesignSpace.from_hdf(path, hdf_node_path=node)
        elif fmt == 1:
            ds.to_csv(path)
            back = DesignSpace.from_csv(path)
        else:
            ds.to_file(path)
            back = DesignSpace.from_file(path)
    except Exception as exc:  # noqa: BLE001
        ctx.violate("C11.design_space_roundtrip", sig + f" raised={type(exc).__name__}", f"round trip raised {exc!r}; cfg={cfg}")
    diffs = []

    def close(a, b):
        a, b = np.asarray(a, dtype=float), np.asarray(b, dtype=float)
        if a.shape != b.shape:
            return False
        if not text:
            return bool(np.array_equal(a, b))
        return bool(np.all((a == b) | (np.abs(a - b) <= 1e-15 * np.maximum(np.abs(a), np.abs(b)))))  # 16 significant digits

    if list(back.variable_names) != [s_[0] for s_ in spec]:
        diffs.append(f"names {[s_[0] for s_ in spec]} -> {list(back.variable_names)}")
    else:
        for name, size, typ, lbs, ubs, vals in spec:
            if back.get_size(name) != size:
                diffs.append(f"{name}: size {size} -> {back.get_size(name)}")
                continue
            if str(back.get_type(name)) != typ and getattr(back.get_type(name), "value", None) != typ:
                diffs.append(f"{name}: type {typ} -> {back.get_type(name)!r}")
            if not close(back.get_lower_bound(name), lbs):
                diffs.append(f"{name}: lower bound {lbs} -> {back.get_lower_bound(name)}")
            if not close(back.get_upper_bound(name), ubs):
                diffs.append(f"{name}: upper bound {ubs} -> {back.get_upper_bound(name)}")
            has = name in back.get_current_value(as_dict=True, complex_to_real=True) if back.has_current_value or vals is None else False
            cur = back._DesignSpace__current_value.get(name) if hasattr(back, "_DesignSpace__current_value") else None
            if vals is None:
                if cur is not None:
                    diffs.append(f"{name}: no current value -> {cur}")
            elif cur is None or not close(cur, vals):
                diffs.append(f"{name}: current value {vals} -> {cur}")
        if not text and back != ds:
            diffs.append("DesignSpace.__eq__ says the reloaded space differs")
    if other and fmt == 0:
        # the data that was in the file is still there
        try:
            on = "" if node else "elsewhere"
            DesignSpace.from_hdf(path, hdf_node_path=on)
        except Exception as exc:  # noqa: BLE001
            diffs.append(f"the design space that was already in the file can no longer be read: {exc!r}")
    if diffs:
        ctx.violate("C11.design_space_roundtrip", sig, f"changed by the round trip: {diffs[:5]}; cfg={cfg}")
    ctx.case(canon(cfg), nontrivial=n_vars >= 2)
    ctx.sample = {k: str(v) for k, v in cfg.items()}


def run(ctx):
    if ctx.tape.flag(0.12, "solved_problem_roundtrip"):
        return solved_problem_roundtrip(ctx)
    if ctx.tape.flag(0.1, "design_space_roundtrip"):
        return design_space_roundtrip(ctx)
    if ctx.tape.flag(0.08, "cache_reload"):
        from ._cache_protocol import api_history

        return api_history(ctx, prop="C11")
    from gemseo.algos.database import Database
    from gemseo.algos.design_space import DesignSpace
    from gemseo.algos.optimization_problem import OptimizationProblem
    from gemseo.core.mdo_functions.mdo_function import MDOFunction

    t = ctx.tape
    dim = t.randint(1, 3, "dim")
    int_pts = t.flag(0.25, "integer_points")
    node = t.pick(["", "a/b", "n"], "node")
    via_problem = t.flag(0.35, "export_via_problem")
    ds = DesignSpace()
    ds.add_variable("x", size=dim, type_="integer" if int_pts else "float", lower_bound=-10, upper_bound=10,
                    value=array([0] * dim) if int_pts else array([0.5] * dim))
    if via_problem:
        problem = OptimizationProblem(ds)
        problem.objective = MDOFunction(lambda x: float(x.sum()), "f")
        problem.add_constraint(MDOFunction(lambda x: x[:1], "g"), constraint_type="ineq")
        db = problem.database
        node = ""
    else:
        problem = None
        db = Database(input_space=ds)
    hist_dir = ctx.scratch / "hist"
    hist_dir.mkdir(exist_ok=True)
    files = [str(hist_dir / "a.h5"), str(hist_dir / "b.h5")]
    # the file may already hold another object: a different design space + database at the root or at another node
    prior = t.weighted([3, 1, 1], "file_already_holds")
    if prior:
        other = DesignSpace()
        other.add_variable("other", size=2, lower_bound=0.0, upper_bound=5.0, value=array([1.0, 2.0]))
        odb = Database(input_space=other)
        odb.store(array([1.0, 2.0]), {"k": 3.0})
        other_node = "" if (prior == 1 and node) else "elsewhere"
        odb.to_hdf(files[0], append=False, hdf_node_path=other_node)
        ctx.fire("file_already_holds_other_data")
    exported = {f: False for f in files}
    model = {}  # (kind, x tuple) -> {name: value}
    ops = []
    n_ops = t.randint(1, 25, "n_ops")
    n_append_after_export = 0
    sig = "problem.to_hdf" if via_problem else "database.to_hdf"

    # with complex-step differentiation the design space is complex and the database holds points of complex dtype next
    # to float ones (the same numbers under both dtypes are two entries)
    complex_pts = not int_pts and not via_problem and t.flag(0.15, "complex_points")
    if complex_pts:
        ctx.probe("history_with_complex_points")

    def new_point(i):
        if int_pts:
            return array([t.randint(-5, 5, f"p{i}[{j}]") for j in range(dim)])
        x = array([t.randint(-8, 8, f"p{i}[{j}]") / 4.0 for j in range(dim)])
        if complex_pts and t.flag(0.5, f"p{i}.complex"):
            return x.astype(complex)
        return x

    def key_of(x):
        return (str(x.dtype.kind), tuple(x.tolist()))

    def export(path, append):
        try:
            if problem is not None:
                problem.to_hdf(path, append=append)
            else:
                db.to_hdf(path, append=append, hdf_node_path=node)
        except Exception as exc:  # noqa: BLE001
            ctx.violate("C11.export_raises", f"{sig} raised={type(exc).__name__}", f"export (append={append}) raised {exc!r}; ops={ops}")

    def reload(path, what):
        try:
            return Database.from_hdf(path, hdf_node_path=node)
        except Exception as exc:  # noqa: BLE001
            ctx.violate("C11.reloadable", f"{sig} {what}", f"after {what}: the file cannot be reloaded: {exc!r}; ops={ops}")

    def compare(path, what):
        back = reload(path, what)
        if back.input_space is None or back.input_space != ds:
            ctx.violate("C11.design_space_roundtrip", f"{sig} {what}" + (" prior-data" if prior else ""),
                        f"after {what}: the input space reloaded with the database differs from the original: {back.input_space} vs {ds}; ops={ops}")
        got, exp = dump(back), model_dump(model)
        ctx.event("compare", what, len(got))
        if got != exp:
            diff = next(((a, b) for a, b in zip(got, exp) if a != b), (len(got), len(exp)))
            ctx.violate("C11.reload_equals_history", f"{sig} {what}",
                        f"after {what}: reloaded file differs from the stored history; first difference file/model = {diff}; ops={ops}")
        return back

    for i in range(n_ops):
        with t.frame("op"):
            k = t.weighted([4, 3, 4, 1, 2, 1, 1], "op") if model else 0
            if k == 0:
                x = new_point(i)
                key = key_of(x)
                n_out = t.randint(0, 3, "n_out")
                start = t.choice(len(NAMES), "first_name")
                names = [NAMES[(start + j) % len(NAMES)] for j in range(n_out)]
                if key in model:
                    names = [n for n in names if n not in model[key]]
                outs = {n: gen_value(t, f"v{i}.{n}") for n in names}
                ops.append(("store", x.tolist(), {n: canon_value(v) for n, v in outs.items()}))
                db.store(x, dict(outs))
                model.setdefault(key, {}).update(outs)
                if not outs:
                    ctx.probe("empty_entry_stored")
            elif k == 1:
                keys = list(model)
                key = keys[t.choice(len(keys), "which_point")]
                missing = [n for n in NAMES if n not in model[key]]
                if not missing:
                    continue
                n_more = t.randint(1, len(missing), "n_more")
                outs = {n: gen_value(t, f"v{i}.{n}") for n in missing[:n_more]}
                x = array(key[1], dtype={"i": int, "c": complex}.get(key[0], float))
                ops.append(("store_more", x.tolist(), {n: canon_value(v) for n, v in outs.items()}))
                db.store(x, dict(outs))
                model[key].update(outs)
                ctx.probe("new_outputs_at_existing_point")
            elif k in (2, 3):
                # one file per history: the pending-point list of a database follows a single file
                f = files[0]
                append = k == 2 or bool(prior)  # (a whole export rewrites the file: not when it holds other data)
                ops.append(("export", "append" if append else "overwrite", os.path.basename(f)))
                if append and exported[f]:
                    n_append_after_export += 1
                    ctx.probe("append_export_after_earlier_export")
                if append and t.flag(0.15, "export_fails"):
                    # injected I/O fault: the directory of the file is unreachable during this export (unmounted share,
                    # renamed folder); the export raises, nothing is written, and the next export must catch up
                    away = str(hist_dir) + ".away"
                    os.rename(str(hist_dir), away)
                    try:
                        if problem is not None:
                            problem.to_hdf(f, append=True)
                        else:
                            db.to_hdf(f, append=True, hdf_node_path=node)
                        raised = False
                    except Exception:  # noqa: BLE001
                        raised = True
                    finally:
                        if os.path.isdir(str(hist_dir)):
                            import shutil

                            shutil.rmtree(str(hist_dir))
                        os.rename(away, str(hist_dir))
                    ops.append(("export_failed", raised))
                    ctx.fire("export_io_error")
                export(f, append)
                exported[f] = True
                compare(f, "export")
            elif k == 6:
                # the history of another run, kept in another file, is merged into this database (update_from_hdf):
                # the merged points are new for the file of this history
                if problem is not None:
                    continue
                x = new_point(i)
                key = key_of(x)
                if key in model:
                    continue
                outs = {n: gen_value(t, f"v{i}.{n}") for n in NAMES[: t.randint(1, 2, "n_merged_outputs")]}
                other_db = Database(input_space=ds)
                other_db.store(x, dict(outs))
                other_path = str(hist_dir / f"merged_{i}.h5")
                other_db.to_hdf(other_path, hdf_node_path=node)
                db.update_from_hdf(other_path, hdf_node_path=node)
                model[key] = dict(outs)
                ops.append(("merge_other_file", x.tolist(), {n: canon_value(v) for n, v in outs.items()}))
                ctx.probe("history_of_another_file_merged")
            elif k == 4:
                done = [f for f in files if exported[f] is True]
                if not done:
                    continue
                f = done[t.choice(len(done), "reload_which")]
                ops.append(("reload", os.path.basename(f)))
                # only the most recently exported state is on file: compare after a fresh append export
                export(f, True)
                compare(f, "reload")
            else:
                done = [f for f in files if exported[f] is True]
                if not done or problem is not None:
                    continue
                f = done[0]
                export(f, True)
                ops.append(("restart", os.path.basename(f)))
                db = reload(f, "restart")
                ctx.fire("restart_from_file")
    # final: incremental file == single export of the in-memory database
    done = [f for f in files if exported[f] is True]
    if done:
        f = done[0]
        export(f, True)
        inc = dump(reload(f, "final export"))
        single = str(ctx.scratch / "single.h5")
        export(single, False)
        one = dump(reload(single, "single export"))
        ctx.event("final", len(inc))
        if inc != one:
            diff = next(((a, b) for a, b in zip(inc, one) if a != b), (len(inc), len(one)))
            ctx.violate("C11.incremental_equals_single", sig, f"incrementally written file differs from a single export: {diff}; ops={ops}")
        if inc != model_dump(model):
            ctx.violate("C11.reload_equals_history", f"{sig} final", f"final file differs from the stored history; ops={ops}")
        # incidental round trip of the design space and the problem
        back_ds = DesignSpace.from_file(single, hdf_node_path=node) if problem is None else None
        if back_ds is not None and back_ds != ds:
            ctx.violate("C11.design_space_roundtrip", sig, f"design space reloaded from the file differs: {back_ds} vs {ds}")
        if problem is not None:
            p2 = OptimizationProblem.from_hdf(single)
            if dump(p2.database) != one or p2.design_space != ds or p2.objective.name != "f" or [c.name for c in p2.constraints] != ["g"]:
                ctx.violate("C11.problem_roundtrip", sig, "problem reloaded from the file differs from the original")
    ctx.event("ops", canon(ops))
    ctx.case(canon(ops), nontrivial=n_append_after_export > 0)
    ctx.sample = {"node": node, "integer_points": bool(int_pts), "via_problem": bool(via_problem), "ops": ops[:25]}
