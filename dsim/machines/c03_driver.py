"""C03 (+ C04 as an invariant): drivers under a simulated clock, a budget and a fault plan.

Each run draws an algorithm from the factories, a compatible problem, settings, a budget,
an optional time limit and a fault plan (NaN at the j-th distinct point, raising sample in a
DOE, per-call durations, clock jumps), then executes the driver 1-3 times on the same problem.
"""

from __future__ import annotations

import math

from numpy import array, isnan, ndarray, zeros

from ..clock import SimClock
from ..core import Inconclusive, canon
from ..seams import rebind
from .. import oracles

PROP = "C03"
NAME = "c03_driver"
RUNS = {"quick": 3500, "thorough": 60000}
TIMEOUT = 120
CPU_LIMIT = 4
CHUNK = 50
ISOLATE = True  # one forked child per run with a hard CPU limit (optimisers may hang inside C code)
RULE = (
    "each run draws (algorithm from the optimisation or DOE factory, problem template, dimension, normalisation/database/Jacobian-storage/"
    "rounding settings, budget N, tolerances, optional max_time, fault plan: NaN at the j-th distinct point, ValueError at the j-th DOE sample, "
    "per-call durations and clock jumps on the simulated clock, 1-3 executions with or without counter reset); distinct by the decoded "
    "configuration+fault plan; non-trivial when at least two evaluations happened"
)
COMPONENTS_REAL = [
    "BaseDriverLibrary.execute / termination handling", "EvaluationCounter, Database listeners", "ProblemFunction", "every optimisation wrapper "
    "(SciPy local/global/linprog/MILP, NLopt, composites)", "every DOE wrapper (OpenTURNS, pyDOE, SciPy, custom, diagonal, Morris, OAT)",
    "OptimizationHistory / OptimizationResult",
]
COMPONENTS_STUB = ["time.time of base_driver_library -> simulated clock", "objective/constraint callables (harness code with a fault plan)"]
ASSUMPTIONS = [
    "promptness of the time limit is not asserted (the statement has no bound); only that the run returns a result",
    "a ValueError raised by a user callable is only injected in DOEs (the statement promises a result for budget, tolerance, time limit and NaN)",
]

COMPOSITE = {"MultiStart", "Augmented_Lagrangian_order_0", "Augmented_Lagrangian_order_1", "MNBI"}
LINEAR_ONLY = {"INTERIOR_POINT", "DUAL_SIMPLEX", "Scipy_MILP"}
KKT_ALGOS = {"SLSQP", "L-BFGS-B", "TNC", "NLOPT_SLSQP", "NLOPT_MMA", "NLOPT_BFGS"}
# OT_SOBOL_INDICES, MorrisDOE, OATDOE need a dedicated setup. PYDOE_CCDESIGN generates star points outside the
# bounds of the design space (a C14 matter); when such a point is the best one, execute raises while recording
# the optimum as current value - outside the clauses of C03, see DESIGN.md 10.5
SKIP_DOE = {"OT_SOBOL_INDICES", "MorrisDOE", "OATDOE", "PYDOE_CCDESIGN"}
_CACHE = {}


def factories():
    if "f" not in _CACHE:
        from gemseo.algos.doe.factory import DOELibraryFactory
        from gemseo.algos.opt.factory import OptimizationLibraryFactory

        of, df = OptimizationLibraryFactory(), DOELibraryFactory()
        _CACHE["f"] = (of, df, sorted(of.algorithms), sorted(df.algorithms))
    return _CACHE["f"]


def warmup():
    of, dfac, opt_algos, doe_algos = factories()
    for name in opt_algos:
        of.create(name)
    for name in doe_algos:
        if name not in SKIP_DOE:
            dfac.create(name)
    of.clear_lib_cache()
    dfac.clear_lib_cache()


class InjectedCrash(RuntimeError):
    """The user's simulation crashes (not a ValueError: no driver swallows it)."""


class Runaway(BaseException):
    """The harness stops a driver that ignores its budget by far (guard against endless runs)."""


CALL_GUARD = 3000


class Fun:
    """The harness's user functions as picklable callables (they may travel to worker processes)."""

    def __init__(self, kind, dim, sign=1.0, out_kind="float"):
        self.kind, self.dim, self.sign, self.out_kind = kind, dim, sign, out_kind
        self.a = array([0.3 + 0.4 * i for i in range(dim)])
        self.c = array([1.0 + 0.5 * i for i in range(dim)])

    def __call__(self, x):
        k, dim, sign = self.kind, self.dim, self.sign
        if k in ("f_rosen", "f_quad") and self.out_kind != "float":
            # the same scalar objective returned as a 0-d array or as an array of size 1
            v = Fun(k, dim, sign)(x)
            return array(v) if self.out_kind == "0d" else array([v])
        if k == "f_rosen":
            return sign * float(sum(10.0 * (x[1:] - x[:-1] ** 2) ** 2 + (1 - x[:-1]) ** 2))
        if k == "df_rosen":
            g = zeros(dim)
            g[:-1] += -40.0 * x[:-1] * (x[1:] - x[:-1] ** 2) - 2 * (1 - x[:-1])
            g[1:] += 20.0 * (x[1:] - x[:-1] ** 2)
            return sign * g
        if k == "f_quad":
            return sign * float(self.c @ ((x - self.a) ** 2))
        if k == "df_quad":
            return sign * 2 * self.c * (x - self.a)
        if k == "g2":
            return array([x.sum() - 1.0, -x[0] - 0.5])
        if k == "dg2":
            j = zeros((2, dim))
            j[0, :] = 1.0
            j[1, 0] = -1.0
            return j
        if k == "g1":
            return array([x.sum() - 1.0])
        if k == "dg1":
            return array([[1.0] * dim])
        if k == "h":
            return array([x[0] - 0.25 * x[-1] - 0.1])
        if k == "dh":
            j = zeros((1, dim))
            j[0, 0] += 1.0
            j[0, -1] += -0.25
            return j
        raise ValueError(k)


class Tracked:
    """A user callable with call log, durations and a fault plan."""

    def __getstate__(self):
        # in a worker process the callable keeps its behaviour (fault plan) but reports nothing
        return {**self.__dict__, "ctx": None, "clock": None, "points": [], "calls": []}


    def __init__(self, name, fn, plan, clock, ctx, kind):
        self.name, self.fn, self.plan, self.clock, self.ctx, self.kind = name, fn, plan, clock, ctx, kind
        self.points = []  # distinct points in first-call order
        self.n_calls = 0
        self.calls = []

    def __call__(self, x):
        self.n_calls += 1
        if self.n_calls > CALL_GUARD:
            raise Runaway(f"{self.name} called more than {CALL_GUARD} times")
        key = tuple(float(v) for v in x.real) if isinstance(x, ndarray) else (float(x),)
        self.calls.append(key)
        new = key not in self.points
        if new:
            self.points.append(key)
        plan = self.plan
        if self.clock is not None:
            self.clock.advance(plan["duration"])
            if plan["jump_at"] and self.kind == "f" and self.n_calls == plan["jump_at"]:
                self.clock.advance(plan["jump"])
                self.ctx.fire("clock_jump")
        j = len(self.points) if new else self.points.index(key) + 1
        if plan["nan"].get(self.name) == j:
            if self.ctx is not None:
                self.ctx.fire("callable_returns_nan")
            v = self.fn(x)
            return v * float("nan")
        if plan.get("crash", {}).get(self.name) == j and not plan.get("crashed"):
            plan["crashed"] = True  # once: the next execution finds a working simulation
            if self.ctx is not None:
                self.ctx.fire("callable_crashes_RuntimeError")
            if new:
                self.points.pop()  # (an evaluation that crashed is not a point the function was evaluated at)
            self.calls.pop()
            raise InjectedCrash(f"injected crash of {self.name} at its {j}-th distinct point")
        if plan["raise"].get(self.name) == j:
            if self.ctx is not None:
                self.ctx.fire("callable_raises_ValueError")
            raise ValueError(f"injected failure of {self.name} at its {j}-th distinct point")
        return self.fn(x)


def build_problem(cfg, plan, clock, ctx):
    from gemseo.algos.design_space import DesignSpace
    from gemseo.algos.optimization_problem import OptimizationProblem
    from gemseo.core.mdo_functions.mdo_function import MDOFunction
    from gemseo.core.mdo_functions.mdo_linear_function import MDOLinearFunction

    dim = cfg["dim"]
    ds = DesignSpace()
    if cfg["integer"]:
        ds.add_variable("x", size=dim - 1 or 1, lower_bound=-2.0, upper_bound=2.0, value=array([0.5] * (dim - 1 or 1)))
        ds.add_variable("n", size=1, type_="integer", lower_bound=-2, upper_bound=3, value=array([1]))
        dim = ds.dimension
    else:
        ds.add_variable("x", size=dim, lower_bound=-2.0, upper_bound=cfg["ub"], value=array([cfg["x0"]] * dim))
    tracked = {}
    a = array([0.3 + 0.4 * i for i in range(dim)])
    c = array([1.0 + 0.5 * i for i in range(dim)])
    sign = -1.0 if cfg["maximize"] else 1.0
    if cfg["linear"]:
        p = OptimizationProblem(ds, is_linear=True)
        p.objective = MDOLinearFunction(sign * c, "f", value_at_zero=array([0.25]))
        if cfg["ineq"]:
            p.add_constraint(MDOLinearFunction(array([[1.0] * dim]), "g", value_at_zero=array([-1.0])), constraint_type="ineq")
        if cfg["eq"]:
            p.add_constraint(MDOLinearFunction(array([[1.0] + [-0.25] * (dim - 1)]), "h", value_at_zero=array([-0.1])), constraint_type="eq")
        if cfg["maximize"]:
            p.minimize_objective = False
        return p, tracked
    p = OptimizationProblem(ds)
    rosen = cfg["objective"] == 1 and dim >= 2
    f = Fun("f_rosen" if rosen else "f_quad", dim, sign, out_kind=cfg.get("f_kind", "float"))
    df = Fun("df_rosen" if rosen else "df_quad", dim, sign)
    tf = tracked["f"] = Tracked("f", f, plan, clock, ctx, "f")
    tdf = tracked["df"] = Tracked("df", df, {**plan, "nan": plan.get("nan_jac", {}), "raise": {}}, clock, ctx, "df")
    p.objective = MDOFunction(tf, "f", jac=tdf if cfg["user_jac"] else None)
    if cfg["maximize"]:
        p.minimize_objective = False
    if cfg["ineq"]:
        two = cfg["ineq"] == 2 and dim >= 2
        g = Fun("g2" if two else "g1", dim)
        dg = Fun("dg2" if two else "dg1", dim)
        tg = tracked["g"] = Tracked("g", g, plan, clock, ctx, "g")
        tdg = tracked["dg"] = Tracked("dg", dg, {**plan, "nan": plan.get("nan_jac", {}), "raise": {}}, clock, ctx, "dg")
        # (optionally a "positive" constraint with an offset: the problem records its standard form -(g - value))
        p.add_constraint(MDOFunction(tg, "g", jac=tdg if cfg["user_jac"] else None), constraint_type="ineq",
                         positive=cfg.get("g_positive", False), value=cfg.get("g_value", 0.0))
    if cfg["eq"]:
        h = Fun("h", dim)
        dh = Fun("dh", dim)
        th = tracked["h"] = Tracked("h", h, plan, clock, ctx, "h")
        tdh = tracked["dh"] = Tracked("dh", dh, {**plan, "nan": {}, "raise": {}}, clock, ctx, "dh")
        p.add_constraint(MDOFunction(th, "h", jac=tdh if cfg["user_jac"] else None), constraint_type="eq")
    if not cfg["user_jac"]:
        p.differentiation_method = p.ApproximationMode.FINITE_DIFFERENCES
    return p, tracked


def draw(ctx, focus="C03"):
    t = ctx.tape
    of, df, opt_algos, doe_algos = factories()
    is_doe = t.flag(0.3 if focus == "C03" else 0.6, "doe")
    cfg = {"doe": is_doe, "dim": t.randint(1, 3, "dim"), "objective": t.choice(2, "objective"), "maximize": t.flag(0.2, "maximize"),
           "ub": 2.0, "x0": t.pick([0.5, -1.0, 1.5], "x0"), "integer": False, "linear": False}
    cfg["f_kind"] = ["float", "0d", "size1"][t.weighted([6, 2, 2], "objective_return_kind")]
    cfg["progress_bar"] = t.flag(0.3, "progress_bar")
    cfg["ineq"] = t.weighted([3, 3, 2], "ineq")
    cfg["eq"] = t.flag(0.25, "eq")
    cfg["user_jac"] = t.flag(0.75, "user_jac")
    cfg["g_positive"] = t.flag(0.2, "constraint_positive")
    cfg["g_value"] = t.pick([0.0, 0.0, 0.5, -0.75], "constraint_value")
    if is_doe:
        names = [a for a in doe_algos if a not in SKIP_DOE]
        cfg["algo"] = names[t.choice(len(names), "algo")]
        if focus == "C04" and t.flag(0.7, "custom_doe"):
            cfg["algo"] = "CustomDOE"
    else:
        start = t.choice(len(opt_algos), "algo")
        cfg["algo"] = opt_algos[start]
    return cfg


def suited(fac, name, problem):
    lib = fac.create(name)
    try:
        return bool(lib.is_algorithm_suited(lib.ALGORITHM_INFOS[name], problem))
    except Exception:  # noqa: BLE001
        return False


def plan_from_tape(t, cfg, budget):
    plan = {"nan": {}, "raise": {}, "duration": 0.0, "jump_at": 0, "jump": 0.0}
    faults_on = t.flag(0.6, "faults_on")
    plan["duration"] = t.pick([0.0, 0.001, 1.0, 3600.0], "call_duration")
    if faults_on:
        k = t.weighted([5, 3, 2, 2, 1 if (cfg["doe"] and cfg["user_jac"]) else 0, 1], "fault_kind")
        j = 1 + t.choice(max(2, min(budget + 2, 12)), "fault_at")
        if k == 1:
            plan["nan"]["f"] = j
        elif k == 2:
            plan["nan"]["g" if cfg["ineq"] else ("h" if cfg["eq"] else "f")] = j
        elif k == 3:
            if cfg["doe"]:
                plan["raise"]["f" if t.flag(0.6, "raise_in_f") or not (cfg["ineq"] or cfg["eq"]) else ("g" if cfg["ineq"] else "h")] = j
            else:
                plan["jump_at"] = j
                plan["jump"] = t.pick([86400.0, -3600.0, 1e7], "clock_jump")
        elif k == 5:
            # the simulation crashes once (an exception no driver handles): the execution raises, which is the user's
            # problem - but the NEXT execution on the same problem must behave as usual
            plan["crash"] = {"f": 1 + t.choice(3, "crash_at")}
        elif k == 4:
            # a user Jacobian returns NaN at its j-th distinct point (DOE with eval_jac: the NaN is recorded, the DOE goes on)
            plan["nan_jac"] = {("dg" if cfg["ineq"] and t.flag(0.5, "nan_in_dg") else "df"): j}
    return plan


def run(ctx):
    run_driver(ctx, "C03")


def run_driver(ctx, focus):
    from gemseo.algos.opt.factory import OptimizationLibraryFactory  # noqa: F401

    t = ctx.tape
    of, dfac, opt_algos, doe_algos = factories()
    of.clear_lib_cache()
    dfac.clear_lib_cache()
    cfg = draw(ctx, focus)
    budget = t.randint(1, 30, "budget") if not t.flag(0.3, "small_budget") else t.randint(1, 4, "budget_small")
    cfg["budget"] = budget
    algo = cfg["algo"]
    if not cfg["doe"]:
        if algo in LINEAR_ONLY:
            cfg["linear"] = True
            cfg["user_jac"] = True
        if algo == "Scipy_MILP" and t.flag(0.5, "integer"):
            cfg["integer"] = True
    plan = plan_from_tape(t, cfg, budget)
    clock = SimClock(epoch=t.pick([1.0e6, 1.7e9, 0.0], "epoch"))
    problem, tracked = build_problem(cfg, plan, clock, ctx)
    if cfg["maximize"] and t.flag(0.5, "original_objective_reporting"):
        problem.use_standardized_objective = False  # results then report the original (maximised) objective
        cfg["use_standardized_objective"] = False
    if focus == "C04" and t.flag(0.4, "record_nan"):
        problem.stop_if_nan = False  # NaN values are then recorded in the history
        cfg["stop_if_nan"] = False
    settings = {"enable_progress_bar": bool(cfg.get("progress_bar"))}
    fac = dfac if cfg["doe"] else of
    lib_name = algo
    if not cfg["doe"]:
        # walk the factory from the drawn algorithm until one suits the problem
        names = opt_algos[opt_algos.index(algo):] + opt_algos[: opt_algos.index(algo)]
        for cand in names:
            if cand in LINEAR_ONLY and not cfg["linear"]:
                continue
            if cand == "MNBI":
                continue
            if suited(of, cand, problem):
                lib_name = cand
                break
        cfg["algo"] = lib_name
        if lib_name in COMPOSITE and not cfg["user_jac"]:
            # composites build sub-problems that do not inherit the derivative approximation
            cfg["user_jac"] = True
            problem, tracked = build_problem(cfg, plan, clock, ctx)
        if lib_name == "NLOPT_NEWUOA" and cfg["dim"] < 2:
            lib_name = cfg["algo"] = "NLOPT_BOBYQA"  # NLopt's NEWUOA needs at least two variables
        settings["max_iter"] = budget
        settings["normalize_design_space"] = t.flag(0.6, "normalize")
        if lib_name == "MultiStart":
            # MultiStart documents normalize_design_space=False as its default and mis-handles True
            # (sub-optimisations leave the bounds): outside the clauses of C03, see DESIGN.md section 7
            settings["normalize_design_space"] = False
        settings["use_database"] = not (t.flag(0.08, "no_database") and lib_name not in COMPOSITE)
        settings["store_jacobian"] = not t.flag(0.2, "no_store_jacobian")
        settings["round_ints"] = not t.flag(0.2, "no_round_ints")
        tol_mode = t.weighted([3, 2, 1], "tolerances")
        if tol_mode == 1:
            settings.update(ftol_rel=1e-2, ftol_abs=1e-2, xtol_rel=1e-2, xtol_abs=1e-2)
        elif tol_mode == 2:
            settings.update(ftol_rel=0.0, ftol_abs=0.0, xtol_rel=0.0, xtol_abs=0.0)
        if t.flag(0.3, "max_time"):
            settings["max_time"] = t.pick([5.0, 0.5, 7200.0], "max_time_value")
        if lib_name in KKT_ALGOS and cfg["user_jac"] and settings["store_jacobian"] and t.flag(0.3, "kkt_tolerances"):
            # the KKT residual criterion (gradient-based wrappers) as a further termination criterion
            settings["kkt_tol_abs"] = t.pick([1e-9, 1e-2, 1.0], "kkt_tol_abs")
            settings["kkt_tol_rel"] = t.pick([1e-9, 1e-2], "kkt_tol_rel")
        if lib_name in ("DIFFERENTIAL_EVOLUTION", "DUAL_ANNEALING"):
            settings["seed"] = 1 + t.choice(10, "algo_seed")
        if lib_name == "MultiStart":
            # documented per-level budget: one evaluation of the initial point + the budgets of the n_start
            # sub-optimisations (automatic split, or opt_algo_max_iter each) must not exceed max_iter; an
            # inconsistent combination is rejected with a ValueError
            settings["n_start"] = 2 + t.choice(2, "n_start")
            settings["max_iter"] = max(budget, 3)
            settings["opt_algo_max_iter"] = t.weighted([3, 1, 1, 1, 1, 1], "opt_algo_max_iter")
            settings["opt_algo_name"] = t.pick(["SLSQP", "NLOPT_COBYLA"], "opt_algo_name")
            # parallel sub-optimisations only with COBYLA: SLSQP can loop forever at recorded points (10.5), its
            # worker would then be killed by the CPU limit and gemseo's pool would wait for it forever
            settings["n_processes"] = 1 + (t.choice(2, "multistart_n_processes") if settings["opt_algo_name"] == "NLOPT_COBYLA" else 0)
            if plan.get("crash"):
                settings["n_processes"] = 1  # (a crash inside a forked sub-optimisation is not replayable: each worker has its own plan)
        if lib_name.startswith("Augmented_Lagrangian"):
            settings["sub_algorithm_name"] = "L-BFGS-B" if lib_name.endswith("1") else "NELDER-MEAD"
            settings["sub_algorithm_settings"] = {"max_iter": 1 + t.choice(6, "sub_max_iter")}
        if lib_name in LINEAR_ONLY:
            for k in ("ftol_rel", "ftol_abs", "xtol_rel", "xtol_abs"):
                settings.pop(k, None)
    else:
        names = [a for a in doe_algos if a not in SKIP_DOE]
        names = names[names.index(algo):] + names[: names.index(algo)]
        for cand in names:
            if suited(dfac, cand, problem):
                lib_name = cand
                break
        cfg["algo"] = lib_name
        n_samples = budget
        settings.update(doe_settings(lib_name, n_samples, cfg, t))
        settings["use_database"] = not t.flag(0.05, "no_database")
        if t.flag(0.2, "max_time"):
            settings["max_time"] = t.pick([5.0, 0.5], "max_time_value")
        if (t.flag(0.3, "eval_jac") or plan.get("nan_jac")) and cfg["user_jac"]:
            settings["eval_jac"] = True
    n_exec = 1 + t.weighted([6, 2, 1], "n_executions")
    if plan.get("crash"):
        n_exec = max(n_exec, 2)
    reset = not t.flag(0.3, "no_counter_reset")
    if lib_name == "NLOPT_BFGS" and plan["nan"]:
        # NLopt's L-BFGS is nondeterministic once a callback has raised (it sometimes evaluates one more
        # point, see known_findings F-C03-nlopt-forced-stop): excluded from exact-replay runs
        plan["nan"] = {}
    cfg["settings"] = {k: (v if not isinstance(v, ndarray) else v.tolist()) for k, v in settings.items()}
    cfg["plan"] = {k: v for k, v in plan.items() if v}
    cfg["n_exec"] = n_exec
    cfg["reset"] = reset
    ctx.event("cfg", canon(cfg))
    sig = f"{'DOE' if cfg['doe'] else 'OPT'} {lib_name}" + ("/parallel" if settings.get("n_processes", 1) > 1 else "")
    c04_runtime = []
    parallel_composite = settings.get("n_processes", 1) > 1
    if parallel_composite:
        ctx.probe("real_worker_processes_outside_the_simulator")
    # (a store listener is a closure: it would make the problem unpicklable for parallel sub-optimisations)
    if (focus == "C04" or t.flag(0.2, "runtime_invariant")) and not parallel_composite:
        def listener(x):
            ctx.probe("optimum_checked_while_running")
            try:
                c04_runtime.extend(oracles.check_history_optimum(problem))
            except Exception as exc:  # noqa: BLE001
                c04_runtime.append(("C04.history_optimum_raises", f"{type(exc).__name__}", f"problem.history.optimum raised {exc!r} during the run"))

        problem.database.add_store_listener(listener)
    total_new = 0
    crashed_before = False
    since_reset = 0  # new entries created since the counters were last reset, counted by the harness
    with rebind([("gemseo.algos.base_driver_library", "time", clock.time)]):
        for e in range(n_exec):
            with t.frame("execute"):
                if e > 0 and not reset and not cfg["doe"] and lib_name not in COMPOSITE and t.flag(0.25, "history_cleared_counter_kept"):
                    # the user clears the history between two executions and keeps the iteration counter
                    # (problem.database.clear(), or a scenario with clear_history_before_execute): the counter is then
                    # ahead of the database
                    problem.database.clear()
                    ctx.probe("history_cleared_between_executions")
                n_before = len(problem.database)
                pts_before = {n: len(tr.points) for n, tr in tracked.items()}
                counter_before = problem.evaluation_counter.current
                result = exc = None
                kw = dict(settings)
                if e > 0:
                    kw["reset_iteration_counters"] = reset
                    if not cfg["doe"] and t.flag(0.5, "raise_budget"):
                        kw["max_iter"] = settings["max_iter"] + t.randint(1, 5, "extra_budget")
                    if cfg["doe"] and t.flag(0.6, "other_samples"):
                        # a continued DOE over other points
                        if "samples" in kw:
                            kw["samples"] = kw["samples"] * 0.9 + 0.05 * e  # other points, still inside the bounds
                        elif "seed" in kw:
                            kw["seed"] = kw["seed"] + e
                        elif "random_state" in kw:
                            kw["random_state"] = kw["random_state"] + e
                if t.flag(0.35, "tolerances_for_this_execution"):
                    # feasibility tolerances are driver settings: they may change from one execution to the next
                    kw["ineq_tolerance"] = t.pick([1e-4, 0.1, 0.5, 1e-8], "ineq_tolerance")
                    kw["eq_tolerance"] = t.pick([1e-2, 0.3, 1e-6], "eq_tolerance")
                if e == 0 or reset:
                    since_reset = 0
                lib = fac.create(lib_name)
                keys_before = {tuple(float(v) for v in x.wrapped_array) for x in problem.database.keys()}
                t_start = clock.now
                try:
                    result = lib.execute(problem, **kw)
                except Inconclusive:
                    ctx.probe(f"endless_loop_at_recorded_points[{lib_name}]")
                    raise
                except InjectedCrash:
                    # not the driver's fault; what it leaves behind is checked on the next execution
                    crashed_before = True
                    since_reset += len(problem.database) - n_before
                    total_new += len(problem.database) - n_before
                    ctx.event("exec", e, "crashed", len(problem.database))
                    continue
                except Exception as ex:  # noqa: BLE001
                    exc = ex
                except Runaway as ex:
                    exc = ex
                    lib._clear_listeners(problem)
                n_new = len(problem.database) - n_before
                total_new += n_new
                if crashed_before and exc is None and kw.get("use_database", True) and not plan["nan"] and lib_name not in COMPOSITE:
                    # the execution after a crashed one counts its own new points, once each
                    counted = problem.evaluation_counter.current - (0 if (e == 0 or reset) else counter_before)
                    if counted != n_new:
                        ctx.violate("C03.budget_entries", sig + " after-crashed-execution", f"execution {e} follows an execution in which the objective raised an exception: it created {n_new} new entries but its evaluation counter advanced by {counted}; cfg={cfg}")
                    ctx.probe("execution_after_a_crashed_one")
                if cfg["doe"]:
                    allowed = max(0, len(lib.samples) - since_reset) if len(getattr(lib, "samples", ())) else budget
                else:
                    allowed = max(0, kw.get("max_iter", budget) - since_reset)
                since_reset += n_new
                ctx.event("exec", e, canon(None if result is None else (result.x_opt, result.f_opt, result.is_feasible, str(result.message))),
                          canon(exc), len(problem.database), problem.evaluation_counter.current)
                if result is not None and "Maximum time reached" in str(result.message) and "max_time" in kw:
                    # a run reported as stopped by the time limit must have seen that much simulated time
                    if clock.now - t_start <= kw["max_time"] * (1 - 1e-9):
                        ctx.violate("C03.time_limit_spurious", sig, f"execution {e} reports 'Maximum time reached' after {clock.now - t_start} simulated seconds with max_time={kw['max_time']}; cfg={cfg}")
                check_execution(ctx, cfg, sig, e, problem, tracked, result, exc, n_new, allowed, pts_before, kw, plan, focus, lib, keys_before)
    ctx.sim_time += clock.covered
    for clause, s, msg in c04_runtime[:1]:
        ctx.violate(clause, f"runtime {s}", msg + f"; cfg={cfg}", fatal=False)
    n_eval = sum(len(tr.points) for n, tr in tracked.items() if n in ("f",))
    ctx.case(canon(cfg), nontrivial=n_eval >= 2 or cfg["linear"])
    ctx.sample = {"cfg": cfg, "entries": len(problem.database), "distinct_points_f": n_eval,
                  "message": None if result is None else str(result.message)[:80], "simulated_seconds": clock.covered}


def doe_settings(name, n, cfg, t):
    dim = cfg["dim"]
    s = {}
    if name == "CustomDOE":
        pts = [[t.randint(-4, 4, f"s[{i}][{j}]") / 2.0 for j in range(dim)] for i in range(n)]
        if n > 1 and t.flag(0.3, "dup_sample"):
            pts[-1] = list(pts[0])
        s["samples"] = array(pts)
    elif name == "DiagonalDOE":
        s["n_samples"] = max(2, n)
    elif name in ("OT_FACTORIAL", "OT_COMPOSITE", "OT_AXIAL"):
        s["n_samples"] = max(n, 2 * dim + 2 ** dim + 1)
    elif name in ("PYDOE_BBDESIGN", "PYDOE_CCDESIGN", "PYDOE_FF2N", "PYDOE_PBDESIGN"):
        pass
    elif name in ("OT_FULLFACT", "PYDOE_FULLFACT"):
        s["n_samples"] = max(n, 1)
    else:
        s["n_samples"] = max(n, 2 if name in ("OT_OPT_LHS", "OT_LHSC") else 1)
    if name in ("Halton", "LHS", "MC", "PoissonDisk", "Sobol"):
        s["seed"] = 1 + t.choice(20, "doe_seed")
    elif name == "PYDOE_LHS":
        s["random_state"] = 1 + t.choice(20, "doe_seed")
    elif name.startswith("OT_") and name not in ("OT_FACTORIAL", "OT_COMPOSITE", "OT_AXIAL", "OT_FULLFACT"):
        s["seed"] = 1 + t.choice(20, "doe_seed")
    if not cfg.get("integer") and t.flag(0.3, "doe_normalize_design_space"):
        s["normalize_design_space"] = True  # (a documented setting of every DOE; the default is False)
    return s


def _is_probe(pt, keys, tol=1e-3):
    """A derivative probe differs from a recorded point in exactly one coordinate, by a small step."""
    for k in keys:
        if len(k) != len(pt):
            continue
        scale = max(1.0, max(abs(v) for v in k))
        d = [abs(a - b) for a, b in zip(pt, k)]
        nz = [v for v in d if v > 1e-13 * scale]  # round-off of the (un)normalisation is not a step
        if len(nz) == 1 and nz[0] <= tol * scale:
            return True
    return False


def check_execution(ctx, cfg, sig, e, problem, tracked, result, exc, n_new, allowed, pts_before, kw, plan, focus, lib, keys_before):
    use_db = kw.get("use_database", True)
    composite = cfg["algo"] in COMPOSITE
    fault = "nan" if plan["nan"] else ("raise" if plan["raise"] else "none")
    # 1. a result, not an exception
    if isinstance(exc, Runaway):
        # endless loop: a violation only if the number of DISTINCT points exceeds the budget (the statement
        # bounds distinct points); otherwise a harness bound was hit: inconclusive
        keys0 = [tuple(float(v) for v in x.wrapped_array) for x in problem.database.keys()]
        worst = 0
        for name in ("f", "g", "h"):
            tr = tracked.get(name)
            if tr is not None:
                pts = [p for p in tr.points[pts_before[name]:] if p not in keys_before and (p in set(keys0) or not _is_probe(p, keys0))]
                worst = max(worst, len(pts))
        if worst > allowed + 1 and not cfg["doe"] and cfg["algo"] not in COMPOSITE:
            ctx.violate("C03.budget_points", sig + " runaway" + ("" if use_db else " use_database=False"),
                        f"execution {e}: the driver kept calling the functions far beyond its budget of {allowed} ({exc}; {worst} distinct non-probe points); cfg={cfg}")
        ctx.probe(f"endless_loop_at_recorded_points[{cfg['algo']}]")
        raise Inconclusive(f"{cfg['algo']}: {exc}")
    if cfg["algo"] == "MultiStart":
        if isinstance(exc, ValueError) and "Multi-start optimization" in str(exc):
            ctx.probe("multistart_inconsistent_budget_rejected")
            return
        if exc is None and use_db and n_new > kw["max_iter"]:
            ctx.violate("C03.budget_entries", sig + " per-level budget", f"execution {e}: MultiStart recorded {n_new} new entries with max_iter={kw['max_iter']} "
                        f"(n_start={kw['n_start']}, opt_algo_max_iter={kw['opt_algo_max_iter']}, n_processes={kw['n_processes']}); cfg={cfg}")
    if exc is not None:
        in_scope = not plan["raise"]
        if in_scope:
            ctx.violate("C03.returns_result", f"{sig} raised={type(exc).__name__} fault={fault}" + ("" if use_db else " use_database=False"),
                        f"execution {e} raised {exc!r} instead of returning a result; cfg={cfg}")
        else:
            ctx.violate("C03.returns_result", f"{sig} raised={type(exc).__name__} fault=raise", f"DOE execution {e} raised {exc!r}; cfg={cfg}")
    if result is None and exc is None and not cfg["doe"]:
        ctx.violate("C03.returns_result", sig + " returned None", f"execution {e} returned None; cfg={cfg}")
    keys = [tuple(float(v) for v in x.wrapped_array) for x in problem.database.keys()]
    keyset = set(keys)
    if cfg["doe"] and n_new > allowed and use_db:
        ctx.violate("C03.budget_entries", sig + " cumulative", f"execution {e} created {n_new} new database entries, {allowed} were left of the budget (number of samples, cumulative without counter reset); cfg={cfg}")
    if not cfg["doe"] and not composite and not cfg["linear"]:
        # 2. at most N new entries
        if n_new > allowed:
            ctx.violate("C03.budget_entries", sig + ("" if use_db else " use_database=False"),
                        f"execution {e} created {n_new} new database entries with a budget of {allowed}; cfg={cfg}")
        # 3. the original callables were invoked at no more than N distinct points (probes excepted)
        for name in ("f", "g", "h"):
            tr = tracked.get(name)
            if tr is None:
                continue
            new_pts = tr.points[pts_before[name]:]
            non_probe = [p for p in new_pts if p not in keys_before and (p in keyset or not _is_probe(p, keys))]
            if plan["nan"]:
                # the point at which a NaN stopped the run is not recorded: its own probes are probes
                unrec = [p for p in non_probe if p not in keyset]
                if unrec:
                    non_probe = [p for p in non_probe if p in keyset or p == unrec[0] or not _is_probe(p, [unrec[0]])]
            if len(non_probe) > allowed + (1 if plan["nan"] else 0):
                # (not fatal without a database: that configuration is a listed finding and the other oracles still apply)
                ctx.violate("C03.budget_points", sig + ("" if use_db else " use_database=False"),
                            f"execution {e}: {name} was called at {len(non_probe)} distinct non-probe points with a budget of {allowed} ({n_new} new entries); cfg={cfg}",
                            fatal=use_db)
                break
            if use_db:
                stray = [p for p in new_pts if p not in keyset and not _is_probe(p, keys)]
                if plan["nan"] and stray:
                    # the point at which a NaN stopped the run is not recorded; its probes are legitimate
                    stray = [p for p in stray[1:] if not _is_probe(p, [stray[0]])]
                if stray:
                    ctx.violate("C03.points_recorded", sig, f"execution {e}: {name} was called at points that are neither recorded nor derivative probes: {stray[:4]}; cfg={cfg}")
    if cfg["doe"] and exc is None:
        check_doe(ctx, cfg, sig, e, problem, tracked, kw, plan, keys, lib)
    # 5. C04 oracle on the final result
    # (LP/MILP wrappers solve once and report the solver's own solution, evaluated outside the
    # database by design: the history-selection oracle does not apply to them)
    if result is not None and use_db and not cfg["linear"]:
        for clause, s, msg in oracles.check_result(problem, result)[:1]:
            ctx.violate(clause, f"{'DOE' if cfg['doe'] else 'OPT'} {s}", msg + f"; cfg={cfg}", fatal=False)
    if use_db and len(problem.database):
        cons = oracles.constraint_specs(problem)
        ents = oracles.db_entries(problem)
        tq, ti = problem.tolerances.equality, problem.tolerances.inequality
        names = {problem.objective.name, *[n for n, _ in cons]}
        if any(not names <= set(o) for _, o in ents):
            ctx.probe("history_with_partially_evaluated_point")
        if any(v is not None and isnan(array(v, dtype=float)).any() for _, o in ents for k, v in o.items() if not k.startswith("@")):
            ctx.probe("history_with_nan_value")
        if any(oracles.feasible(o, cons, tq, ti) for _, o in ents):
            ctx.probe("history_with_feasible_point")
        else:
            ctx.probe("history_only_infeasible")
        if cfg["maximize"]:
            ctx.probe("history_of_maximisation")
    msg = "" if result is None else str(result.message)
    if "Maximum number of iterations" in msg:
        ctx.probe("stopped_by_budget")
    elif "Maximum time" in msg:
        ctx.probe("stopped_by_time_limit")
    elif "NaN" in msg:
        ctx.probe("stopped_by_nan")
    elif "closer than" in msg:
        ctx.probe("stopped_by_tolerance")
    elif "KKT" in msg:
        ctx.probe("stopped_by_kkt")
    elif result is not None:
        ctx.probe("stopped_by_algorithm")


def check_doe(ctx, cfg, sig, e, problem, tracked, kw, plan, keys, lib):
    """Each distinct generated sample is evaluated once; records are the non-failed samples in generation order."""
    from collections import Counter

    if e > 0 or not kw.get("use_database", True) or plan["nan"]:
        return
    tr = tracked["f"]

    def rnd(pt):
        # with a normalised design space the functions see unnormalize(normalize(sample)): equal up to round-off
        return tuple(round(float(v), 10) + 0.0 for v in pt)

    samples = []
    for srow in lib.samples:
        p = rnd(srow)
        if p not in samples:
            samples.append(p)
    cnt = Counter(rnd(c) for c in tr.calls)
    keys = [rnd(k) for k in keys]
    tr_points = []
    for q in tr.points:
        if rnd(q) not in tr_points:
            tr_points.append(rnd(q))
    failed_pts = set()
    for name, jj in plan["raise"].items():
        t2 = tracked.get(name)
        if t2 is not None and len(t2.points) >= jj:
            failed_pts.add(rnd(t2.points[jj - 1]))  # a failed sample may legitimately be tried again by a duplicate
    for p in samples:
        if cnt.get(p, 0) > 1 and p not in failed_pts:
            ctx.violate("C03.doe_once", sig, f"objective called {cnt[p]} times at sample {p}; cfg={cfg}")
    stray = [p for p in tr_points if p not in samples]
    if stray:
        ctx.violate("C03.doe_once", sig + " stray", f"objective called at points that are not generated samples: {stray[:3]}; cfg={cfg}")
    obj_failed = set()
    j = plan["raise"].get("f")
    if j and len(tr.points) >= j:
        obj_failed.add(rnd(tr.points[j - 1]))
    evaluated = [p for p in samples if p in cnt]
    if "max_time" not in kw and len(evaluated) != len(samples):
        ctx.violate("C03.doe_once", sig + " missing", f"{len(samples) - len(evaluated)} generated samples were never evaluated; cfg={cfg}")
    exp = [p for p in evaluated if p not in obj_failed]
    if keys != exp:
        ctx.violate("C03.doe_order", sig, f"database keys {keys} are not the non-failed evaluated samples in generation order {exp}; cfg={cfg}")
