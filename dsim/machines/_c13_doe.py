"""C13 process workloads around DOEs, finite differences and a shared HDF5 cache."""

from __future__ import annotations

from numpy import array, array_equal

from ..clock import SimClock
from ..core import canon
from ..models import HDisc
from . import _c13_common as common


def _dump_db(db):
    out = []
    for x, o in db.items():
        out.append((tuple(x.wrapped_array.tolist()), tuple((k, canon(array(v))) for k, v in sorted(o.items()))))
    return out


def make_problem(dim, fail_f, fail_g, with_g, with_obs, counters=None):
    """A small problem whose failures depend on the point only (so they also happen in forked workers)."""
    from gemseo.algos.design_space import DesignSpace
    from gemseo.algos.optimization_problem import OptimizationProblem
    from gemseo.core.mdo_functions.mdo_function import MDOFunction

    ds = DesignSpace()
    ds.add_variable("x", size=dim, lower_bound=-2.0, upper_bound=2.0, value=array([0.5] * dim))
    coef = array([1.0 + 0.5 * i for i in range(dim)])

    def key(x):
        return tuple(round(float(v), 9) for v in x)

    def f(x):
        if key(x) in fail_f:
            raise ValueError("injected failure of the objective")
        return float(coef @ (x * x) + x[0])

    def df(x):
        return 2 * coef * x + array([1.0] + [0.0] * (dim - 1))

    def g(x):
        if key(x) in fail_g:
            raise ValueError("injected failure of the constraint")
        return array([x.sum() - 1.0, x[0] - 0.25])

    def dg(x):
        j = array([[1.0] * dim, [1.0] + [0.0] * (dim - 1)])
        return j

    def obs(x):
        return array([x[0] * 3.0])

    p = OptimizationProblem(ds)
    p.objective = MDOFunction(f, "f", jac=df)
    if with_g:
        p.add_constraint(MDOFunction(g, "g", jac=dg), constraint_type="ineq")
    if with_obs:
        p.add_observable(MDOFunction(obs, "o", jac=lambda x: array([[3.0] + [0.0] * (dim - 1)])))
    return p, key


def p2_parallel_doe(ctx):
    from gemseo.algos.doe.factory import DOELibraryFactory

    t = ctx.tape
    dim = t.randint(1, 3, "dim")
    n_workers = t.randint(2, 4, "n_workers")
    algo = t.weighted([5, 2, 2], "algo")
    n_samples = t.randint(1, 7, "n_samples")
    eval_jac = t.flag(0.4, "eval_jac")
    with_g = t.flag(0.6, "with_constraint")
    with_obs = t.flag(0.3, "with_observable")
    n_cb = t.randint(0, 2, "n_callbacks")
    faults_on = t.flag(0.55, "faults_on")
    wait = t.flag(0.1, "wait_time_between_samples")
    # (on the grids of CustomDOE and full factorial designs the normalisation round trip over [-2, 2] is exact)
    normalize = algo in (0, 1) and t.flag(0.3, "normalize_design_space")
    settings = {}
    if algo == 0:
        samples = []
        for i in range(n_samples):
            if i and t.flag(0.12, f"dup[{i}]"):
                samples.append(list(samples[t.choice(i, f"dup_of[{i}]")]))
                ctx.probe("duplicate_sample")
            else:
                samples.append([t.randint(-4, 4, f"s[{i}][{j}]") / 2.0 for j in range(dim)])
        settings = {"algo_name": "CustomDOE", "samples": array(samples)}
    elif algo == 1:
        settings = {"algo_name": "PYDOE_FULLFACT", "n_samples": max(2, n_samples)}
    else:
        settings = {"algo_name": "PYDOE_LHS", "n_samples": n_samples, "random_state": 1 + t.choice(50, "doe_seed")}
    # sample list as generated (needed to place the failures)
    lib = DOELibraryFactory().create(settings["algo_name"])
    probe_problem, key = make_problem(dim, set(), set(), with_g, with_obs)
    gen = lib.compute_doe(probe_problem.design_space, **{k: v for k, v in settings.items() if k != "algo_name"})
    gen_keys = [key(x) for x in gen]
    fail_f, fail_g = set(), set()
    if faults_on:
        for i, k in enumerate(gen_keys):
            r = t.weighted([10, 2, 1], f"fail[{i}]")
            if r == 1:
                fail_f.add(k)
            elif r == 2 and with_g:
                fail_g.add(k)
    cfg = {"workload": "P2-parallel-doe", "algo": settings["algo_name"], "dim": dim, "n_samples": len(gen_keys),
           "n_workers": n_workers, "eval_jac": eval_jac, "normalize": bool(normalize), "with_g": with_g, "with_obs": with_obs, "n_callbacks": n_cb,
           "samples": [list(k) for k in gen_keys], "fail_objective": sorted(fail_f), "fail_constraint": sorted(fail_g)}
    ctx.event("cfg", canon(cfg))
    sig = "P2"
    clock = SimClock()
    res = {}
    logs = {}
    for label, n_proc in (("seq", 1), ("par", n_workers)):
        p, _ = make_problem(dim, fail_f, fail_g, with_g, with_obs)
        cb_logs = [[] for _ in range(n_cb)]
        cbs = [(lambda i, data, log=log: log.append((i, canon(data[0]), canon(data[1])))) for log in cb_logs]
        kw = dict(settings)
        if normalize:
            kw["normalize_design_space"] = True
        if wait and n_proc > 1:
            kw["wait_time_between_samples"] = 0.25
        if n_proc == 1:
            DOELibraryFactory().execute(p, n_processes=1, eval_jac=eval_jac, callbacks=cbs, **kw)
        else:
            with common.engine(ctx, "proc", clock) as eng:
                DOELibraryFactory().execute(p, n_processes=n_proc, eval_jac=eval_jac, callbacks=cbs, **kw)
                actions = list(eng.e.actions)
        res[label] = _dump_db(p.database)
        logs[label] = cb_logs
    ctx.sim_time += clock.covered
    n_failed = len([k for k in gen_keys if k in fail_f or k in fail_g])
    ctx.fire("sample_objective_raises", len([k for k in gen_keys if k in fail_f]))
    ctx.fire("sample_constraint_raises", len([k for k in gen_keys if k in fail_g and k not in fail_f]))
    starts = [i for kind, i in actions if kind == "start"]
    completes = [i for kind, i in actions if kind == "complete"]
    ctx.event("schedule", tuple(starts), tuple(completes))
    ctx.event("db", tuple(res["par"]))
    if completes != sorted(completes):
        ctx.probe("completion_order_differs_from_submission")
    # 1. equivalence with the sequential run
    if res["par"] != res["seq"]:
        only_partial = False
        if fail_g - fail_f:
            # candidate: sequential keeps the objective of a sample whose constraint raised
            partial = fail_g - fail_f
            seq_wo = [e for e in res["seq"] if tuple(round(v, 9) for v in e[0]) not in partial]
            par_wo = [e for e in res["par"] if tuple(round(v, 9) for v in e[0]) not in partial]
            only_partial = seq_wo == par_wo
        if only_partial:
            ctx.violate("C13.doe_equivalence", "P2 constraint-raises-after-objective partial-entry",
                        f"sequential DOE keeps a partial entry for samples whose constraint raised, parallel DOE drops them: "
                        f"seq={len(res['seq'])} entries, par={len(res['par'])}; cfg={cfg}", fatal=False)
        else:
            diff = next(((a, b) for a, b in zip(res["seq"], res["par"]) if a != b), (len(res["seq"]), len(res["par"])))
            ctx.violate("C13.doe_equivalence", sig, f"parallel database != sequential database; first difference {diff}; schedule={actions}; cfg={cfg}")
    # 2. model: keys are the non-failed samples in generation order, once
    exp_keys = []
    for k in gen_keys:
        if k not in fail_f and k not in fail_g and k not in exp_keys:
            exp_keys.append(k)
    got_keys = [e[0] for e in res["par"]]
    if [tuple(round(v, 9) for v in k) for k in got_keys] != exp_keys:
        ctx.violate("C13.doe_order", sig, f"parallel DOE database keys {got_keys} != non-failed samples in generation order {exp_keys}; schedule={actions}; cfg={cfg}")
    # 3. callbacks: once per successful sample, matching index and data, same as sequential
    ok_idx = sorted(i for i, k in enumerate(gen_keys) if k not in fail_f and k not in fail_g)
    for log_par, log_seq in zip(logs["par"], logs["seq"]):
        if sorted(i for i, _, _ in log_par) != ok_idx:
            ctx.violate("C13.callback", sig, f"callback indices {[i for i, _, _ in log_par]} expected once each of {ok_idx}; cfg={cfg}")
        if sorted(log_par, key=lambda e: e[0]) != sorted(log_seq, key=lambda e: e[0]):
            ctx.violate("C13.callback", sig + " data", f"callback data differ between parallel and sequential runs; cfg={cfg}")
    ctx.case(("P2", settings["algo_name"], len(gen_keys), n_workers, tuple(sorted(fail_f)), tuple(sorted(fail_g)), tuple(starts), tuple(completes)),
             nontrivial=len(gen_keys) >= 2)
    ctx.sample = {"cfg": cfg, "start_order": starts, "completion_order": completes, "db_entries": len(res["par"]), "failed_samples": n_failed}


def p3_parallel_fd(ctx, mode="proc"):
    from gemseo.utils.derivatives.centered_differences import CenteredDifferences
    from gemseo.utils.derivatives.complex_step import ComplexStep
    from gemseo.utils.derivatives.finite_differences import FirstOrderFD

    t = ctx.tape
    cls = t.pick([FirstOrderFD, CenteredDifferences, ComplexStep], "approximator")
    dim = t.randint(1, 4, "dim")
    n_out = t.randint(1, 3, "n_out")
    n_workers = t.randint(2, 4, "n_workers")
    x = array([t.randint(-3, 3, f"x[{j}]") / 2.0 for j in range(dim)])
    durations = [t.choice(3, f"dur[{i}]") for i in range(2 * dim + 1)]
    a = array([[((r + 2) * (c + 3)) % 5 - 2.0 for c in range(dim)] for r in range(n_out)])
    state = {"eng": None, "n": 0}

    def f(v):
        eng = state["eng"]
        if eng is not None:
            state["n"] += 1
            eng.work(durations[state["n"] % len(durations)])
        return a @ (v * v) + a @ v

    step = 1e-6 if cls is not ComplexStep else 1e-20
    # with a design space the perturbation of a component sitting on its upper bound goes backwards
    kw = {}
    bounded = t.flag(0.5, "design_space")
    if bounded:
        from gemseo.algos.design_space import DesignSpace

        ds = DesignSpace()
        ds.add_variable("x", size=dim, lower_bound=-1.5, upper_bound=1.5)
        kw["design_space"] = ds
        if any(abs(v) == 1.5 for v in x):
            ctx.probe("fd_point_on_a_bound")
    cfg = {"workload": f"P3-{cls.__name__}/{mode}", "dim": dim, "n_out": n_out, "n_workers": n_workers, "x": x.tolist(), "design_space": bool(bounded)}
    ctx.event("cfg", canon(cfg))
    sig = cfg["workload"]
    ref = cls(f, step=step, **kw).f_gradient(x.copy())
    clock = SimClock()
    with common.engine(ctx, mode, clock, **({"with_locks": False} if mode == "thread" else {})) as eng:
        state["eng"] = eng
        try:
            par = cls(f, step=step, parallel=True, n_processes=n_workers, use_threading=mode == "thread", **kw).f_gradient(x.copy())
        except common.Deadlock as d:
            ctx.violate("C13.liveness", sig + " deadlock", str(d))
        finally:
            state["eng"] = None
        order = [i for kind, i in eng.e.actions if kind == "complete"] if mode == "proc" else []
    ctx.event("grad", canon(par))
    if order and order != sorted(order):
        ctx.probe("completion_order_differs_from_submission")
    # same formula, but a pickled (contiguous) input and a strided view may differ in the last bit of
    # f, which the division by the step amplifies to ~1e-10: equality up to 1e-7, not bit-for-bit
    from numpy import allclose

    if array(par).shape != array(ref).shape or not allclose(array(par), array(ref), rtol=1e-7, atol=1e-7):
        ctx.violate("C13.fd_equivalence", sig, f"parallel approximation {par} != serial {ref}; completion order {order}; cfg={cfg}")
    ctx.case((sig, dim, n_out, n_workers, tuple(order), ctx.digest()), nontrivial=dim >= 2)
    ctx.sample = {"cfg": cfg, "completion_order": order}


def p4_doe_shared_hdf5_cache(ctx):
    """Parallel DOE scenario over one discipline whose HDF5 cache file is shared by the forked workers."""
    from gemseo import create_design_space, create_scenario
    from gemseo.caches.hdf5_cache import HDF5Cache
    from gemseo.utils.singleton import SingleInstancePerFileAttribute

    t = ctx.tape
    n_workers = t.randint(2, 4, "n_workers")
    n_samples = t.randint(2, 6, "n_samples")
    samples = []
    for i in range(n_samples):
        if i and t.flag(0.2, f"dup[{i}]"):
            samples.append(list(samples[t.choice(i, f"dup_of[{i}]")]))
            ctx.probe("duplicate_sample")
        else:
            samples.append([t.randint(-4, 4, f"s[{i}][0]") / 2.0, t.randint(-4, 4, f"s[{i}][1]") / 2.0])
    prefilled = t.flag(0.3, "cache_prefilled")
    path = ctx.scratch / "cache.h5"
    sizes = {"a": 2, "y0": 1, "z0": 2}
    cfg = {"workload": "P4-doe-shared-hdf5-cache", "n_workers": n_workers, "samples": samples, "prefilled": bool(prefilled)}
    ctx.event("cfg", canon(cfg))
    sig = "P4"

    def build(cache_path):
        d = HDisc("D0", ["a"], ["y0", "z0"], sizes, salt=1)
        if cache_path is not None:
            d.set_cache("HDF5Cache", hdf_file_path=str(cache_path), hdf_node_path="node")
        ds = create_design_space()
        ds.add_variable("a", size=2, lower_bound=-3.0, upper_bound=3.0, value=array([0.0, 0.0]))
        sc = create_scenario([d], "y0", ds, scenario_type="DOE", formulation_name="DisciplinaryOpt")
        sc.add_observable("z0")
        return sc, d

    SingleInstancePerFileAttribute.instances.clear()
    try:
        sc_seq, d_seq = build(None)
        sc_seq.execute(algo_name="CustomDOE", samples=array(samples))
        ref = _dump_db(sc_seq.formulation.optimization_problem.database)
        sc, d = build(path)
        extra = set()
        if prefilled:
            d.execute({"a": array(samples[0])})
            extra.add(tuple(samples[0]))
        clock = SimClock()
        with common.engine(ctx, "proc", clock) as eng:
            sc.execute(algo_name="CustomDOE", samples=array(samples), n_processes=n_workers)
            actions = list(eng.e.actions)
        got = _dump_db(sc.formulation.optimization_problem.database)
        ctx.event("schedule", tuple(actions))
        ctx.event("db", tuple(got))
        if got != ref:
            ctx.violate("C13.doe_equivalence", sig, f"parallel DOE with shared HDF5 cache: database differs from the sequential run; schedule={actions}; cfg={cfg}")
        # the cache as seen by the parent object, then by a fresh object on the same file
        for label in ("parent", "reopened"):
            if label == "reopened":
                SingleInstancePerFileAttribute.instances.clear()
                cache = HDF5Cache(hdf_file_path=str(path), hdf_node_path="node")
            else:
                cache = d.cache
            entries = list(cache.get_all_entries())
            seen = sorted(tuple(array(e.inputs["a"]).tolist()) for e in entries)
            exp = sorted({k for k, _ in ref} | extra)  # the points the sequential run evaluated (+ prefill)
            if seen != exp:
                ctx.violate("C13.shared_cache_wellformed", f"{sig} {label}", f"{label} cache holds inputs {seen}, distinct samples are {exp}; schedule={actions}; cfg={cfg}")
            for e in entries:
                fx = d.f({"a": array(e.inputs["a"])})
                for o, v in fx.items():
                    if not e.outputs or o not in e.outputs or not array_equal(array(e.outputs[o]), v):
                        ctx.violate("C13.shared_cache_wellformed", f"{sig} {label}", f"{label} cache entry a={e.inputs['a']} holds {e.outputs}, expected {fx}; cfg={cfg}")
        completes = [i for kind, i in actions if kind == "complete"]
        if completes != sorted(completes):
            ctx.probe("completion_order_differs_from_submission")
        ctx.case(("P4", n_workers, tuple(map(tuple, samples)), tuple(actions)), nontrivial=True)
        ctx.sample = {"cfg": cfg, "schedule": actions}
    finally:
        SingleInstancePerFileAttribute.instances.clear()
