"""C04: the optimum-selection rule as an invariant over the histories that faults produce.

Same driver machine as C03 with the workload shifted towards varied histories: sequential
CustomDOE over tape-chosen point lists (clustered, repeated), failing objectives and
constraints, NaN values recorded (stop_if_nan off), maximisation, vector constraints of both
types, repeated executions.  The oracle (dsim/oracles.py, re-implemented from the
documentation) is evaluated from a store listener after EVERY recorded value and on each
final result.  Violations of the budget/return oracles found on the way belong to C03.
"""

from __future__ import annotations

from numpy import array

from . import c03_driver as base

PROP = "C04"
NAME = "c04_optimum"
RUNS = {"quick": 3500, "thorough": 60000}
TIMEOUT = base.TIMEOUT
CPU_LIMIT = base.CPU_LIMIT
CHUNK = 50
ISOLATE = True  # one forked child per run with a hard CPU limit (optimisers may hang inside C code)
RULE = (
    "driver runs as in c03_driver, mix shifted to CustomDOE point lists with repeated points, raising/NaN-returning functions, NaN recorded, "
    "maximisation and repeated executions; the selection oracle is evaluated after every stored value (store listener) and on every final "
    "result; distinct by decoded configuration+fault plan; non-trivial when at least two evaluations happened"
)
COMPONENTS_REAL = base.COMPONENTS_REAL
COMPONENTS_STUB = base.COMPONENTS_STUB
ASSUMPTIONS = [
    "the multi-objective clause is decided for the histories that sequential CustomDOE runs with failing / NaN-returning objectives and constraints "
    "and repeated executions leave (ParetoFront.from_optimization_problem): only what the statement says - reported points are feasible recorded "
    "points and none is dominated by a feasible recorded one; completeness of the front is not demanded",
    "LP/MILP wrappers report the solver's own solution, evaluated outside the database by design: the selection oracle is not applied to them",
    "a partially evaluated point is never the witness of a least-infeasible violation; as reported point its measure is the lower bound over the constraints it has",
]


warmup = base.warmup


class TableFun:
    """Vector function defined by a table over the grid {0, 1/2, 1}^2 (ties between points are the rule)."""

    def __init__(self, name, table, plan, ctx, scale=1.0):
        self.name, self.table, self.plan, self.ctx, self.scale = name, table, plan, ctx, scale
        self.seen = []

    def __call__(self, x):
        key = (int(round(2 * float(x[0]))), int(round(2 * float(x[1]))))
        if key not in self.seen:
            self.seen.append(key)
        j = self.seen.index(key) + 1
        kind = self.plan.get((self.name, j))
        if kind == "raise":
            self.ctx.fire("callable_raises_ValueError")
            raise ValueError(f"injected failure of {self.name} at its {j}-th distinct point")
        v = array(self.table[key], dtype=float) * self.scale
        if kind == "nan":
            self.ctx.fire("callable_returns_nan")
            v = v.copy()
            v[0] = float("nan")
        return v


def pareto_history(ctx):
    """Multi-objective histories left by sequential DOE runs under failures; the reported front against the history."""
    from gemseo.algos.design_space import DesignSpace
    from gemseo.algos.doe.factory import DOELibraryFactory
    from gemseo.algos.optimization_problem import OptimizationProblem
    from gemseo.algos.pareto.pareto_front import ParetoFront
    from gemseo.core.mdo_functions.mdo_function import MDOFunction

    from .. import oracles
    from ..core import canon

    t = ctx.tape
    n_obj = t.randint(2, 3, "n_obj")
    grid = [(i, j) for i in range(3) for j in range(3)]
    ftab = {k: [t.choice(3, f"f[{k}][{c}]") for c in range(n_obj)] for k in grid}
    with_g = t.flag(0.6, "ineq")
    gtab = {k: [t.choice(3, f"g[{k}]") - 1] for k in grid} if with_g else None
    maximize = t.flag(0.2, "maximize")
    stop_if_nan = not t.flag(0.5, "nan_recorded")
    plan = {}
    for _ in range(t.weighted([2, 2, 1], "n_faults")):
        name = t.pick(["f", "g"] if with_g else ["f"], "fault_fn")
        plan[name, 1 + t.choice(6, "fault_at")] = t.pick(["raise", "nan"], "fault_kind")
    ds = DesignSpace()
    ds.add_variable("x", size=2, lower_bound=0.0, upper_bound=1.0, value=array([0.5, 0.5]))
    problem = OptimizationProblem(ds)
    problem.objective = MDOFunction(TableFun("f", ftab, plan, ctx), "f")
    if maximize:
        problem.minimize_objective = False
    if with_g:
        problem.add_constraint(MDOFunction(TableFun("g", gtab, plan, ctx, 0.5), "g"), constraint_type="ineq")
    problem.stop_if_nan = stop_if_nan
    n_exec = t.randint(1, 2, "n_exec")
    cfg = {"family": "pareto", "n_obj": n_obj, "ineq": with_g, "maximize": maximize, "stop_if_nan": stop_if_nan,
           "plan": sorted((k[0], k[1], v) for k, v in plan.items()), "f": canon(ftab), "g": canon(gtab)}
    ctx.event("cfg", canon(cfg))
    sig = "pareto CustomDOE"
    lib = DOELibraryFactory()
    all_samples = []
    for e in range(n_exec):
        with t.frame("exec"):
            n = t.randint(1, 7, "n_samples")
            samples = array([[grid[t.choice(9, f"s[{i}]")][c] / 2.0 for c in range(2)] for i in range(n)])
            all_samples.append(samples.tolist())
            try:
                lib.execute(problem, algo_name="CustomDOE", samples=samples)
            except Exception as exc:  # noqa: BLE001  (what a driver run may raise is C03's subject)
                ctx.event("exec_raised", type(exc).__name__)
            entries = oracles.db_entries(problem)
            ctx.event("history", e, canon([(x, o) for x, o in entries]))
            try:
                front = ParetoFront.from_optimization_problem(problem)
            except Exception as exc:  # noqa: BLE001
                # (an empty front - no feasible point, or only mutually tied ones - makes the constructor raise: outside the clause)
                ctx.probe("no_front_reported:" + type(exc).__name__)
                continue
            ctx.probe("front_checked")
            if len(front.f_optima) >= 2:
                ctx.probe("front_with_two_points_or_more")
            ctx.event("front", canon(front.f_optima), canon(front.x_optima))
            for clause, s2, msg in oracles.check_pareto(problem, front.f_optima, front.x_optima):
                ctx.violate(clause, sig, f"{msg}; samples={all_samples}; cfg={cfg}")
    ctx.case(("pareto", canon(cfg), canon(all_samples)), nontrivial=len(problem.database) >= 2)
    ctx.sample = {"family": "pareto front of a DOE history", "cfg": {k: str(v) for k, v in cfg.items()}, "samples": all_samples}


def run(ctx):
    if ctx.tape.flag(0.15, "pareto_history"):
        return pareto_history(ctx)
    base.run_driver(ctx, "C04")
