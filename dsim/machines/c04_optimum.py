"""C04: the optimum-selection rule as an invariant over the histories that faults produce.

Same driver machine as C03 with the workload shifted towards varied histories: sequential
CustomDOE over tape-chosen point lists (clustered, repeated), failing objectives and
constraints, NaN values recorded (stop_if_nan off), maximisation, vector constraints of both
types, repeated executions.  The oracle (dsim/oracles.py, re-implemented from the
documentation) is evaluated from a store listener after EVERY recorded value and on each
final result.  Violations of the budget/return oracles found on the way belong to C03.
"""

from __future__ import annotations

from . import c03_driver as base

PROP = "C04"
NAME = "c04_optimum"
RUNS = {"quick": 3500, "thorough": 60000}
TIMEOUT = base.TIMEOUT
CPU_LIMIT = base.CPU_LIMIT
CHUNK = 50
ISOLATE = True  # one forked child per run with a hard CPU limit (optimisers may hang inside C code)
RULE = (
    "driver runs as in c03_driver, mix shifted to CustomDOE point lists with repeated points, raising/NaN-returning functions, NaN recorded, "
    "maximisation and repeated executions; the selection oracle is evaluated after every stored value (store listener) and on every final "
    "result; distinct by decoded configuration+fault plan; non-trivial when at least two evaluations happened"
)
COMPONENTS_REAL = base.COMPONENTS_REAL
COMPONENTS_STUB = base.COMPONENTS_STUB
ASSUMPTIONS = [
    "the multi-objective/Pareto clause is not decided (a pure function of a finished history)",
    "LP/MILP wrappers report the solver's own solution, evaluated outside the database by design: the selection oracle is not applied to them",
    "a partially evaluated point is never the witness of a least-infeasible violation; as reported point its measure is the lower bound over the constraints it has",
]


warmup = base.warmup


def run(ctx):
    base.run_driver(ctx, "C04")
