"""C12: crash-point sweep of scenarios with a history backup, restart from every image.

One configuration per run (tape): scenario kind, formulation, algorithm, backup mode,
normalisation, budget.  The reference run is executed once and the backup file is
copied at EVERY discipline execution k (snapshot sweep == process death at k, the file
being closed at that instant - asserted with h5py's open-object count, and cross-checked
against a real forked child killed by os._exit at a tape-chosen k).  Every image is
loaded and compared with the store-event prefix; restarts (single and repeated crashes)
are executed from the images.
"""

from __future__ import annotations

import os
import shutil

from numpy import array, atleast_2d

from ..core import canon

PROP = "C12"
NAME = "c12_crash"
RUNS = {"quick": 96, "thorough": 640}
TIMEOUT = 1500
CHUNK = 2
DETERMINISM_RERUNS = 4
RULE = (
    "one configuration per run (MDO DisciplinaryOpt / MDF over 3 coupled harness disciplines with a sequential MDA / IDF over two disciplines "
    "computing objective and constraint separately, or DOE scenario; "
    "algorithm; backup at each call / each iteration / both; normalised or not; budget); ALL crash points k=1..K of the configuration "
    "are enumerated by the snapshot sweep and checked against the store-event prefix; restarts from tape-chosen k (all k in the thorough "
    "tier), repeated crashes up to depth 3, and real os._exit deaths at tape-chosen k; a case is one distinct (configuration, crash "
    "path) pair, non-trivial when the image holds at least one entry"
)
COMPONENTS_REAL = [
    "Scenario/DOEScenario.execute, set_optimization_history_backup", "OptimizationProblem.to_hdf(append=True)", "HDFDatabase append/export",
    "Database.update_from_hdf / from_hdf", "ProblemFunction memoisation", "SciPy/NLopt optimisers", "MDF/MDAGaussSeidel/MDAJacobi(n_processes=1)",
    "h5py/HDF5 on /dev/shm", "os.fork + os._exit for cross-checks",
]
COMPONENTS_STUB = ["harness disciplines (count calls, snapshot or die at call k)",
                   "thread scheduling of MDAJacobi's worker threads in the 'MDAJacobi/threads' configurations (baton-passing scheduler, schedule from the tape)"]
ASSUMPTIONS = [
    "process death only (no power loss / fsync model); death during an export is outside the statement and not injected",
    "snapshot == death: holds because no HDF5 file object is open during a discipline call (asserted at every k) and cross-checked by real deaths",
]

MDO_ALGOS = ["SLSQP", "L-BFGS-B", "NLOPT_COBYLA", "NLOPT_SLSQP", "NELDER-MEAD"]
UNCONSTRAINED_ONLY = {"L-BFGS-B", "NELDER-MEAD"}
DOE_ALGOS = ["PYDOE_FULLFACT", "PYDOE_LHS", "CustomDOE"]
MAX_KEPT = 48


class _Counter:
    def __init__(self):
        self.k = 0
        self.hook = None
        self.calls = []  # (k, discipline name, kind, x)


def _make_disciplines(cfg, counter):
    from gemseo.core.discipline import Discipline

    v = cfg["variant"]
    nx = cfg["nx"]
    G = cfg.get("gname", "g")  # (a name whose ASCII order relative to "f" differs from its case-insensitive order)

    class Base(Discipline):
        def __init__(self, name, ins, outs):
            super().__init__(name)
            self.io.input_grammar.update_from_names(ins)
            self.io.output_grammar.update_from_names(outs)
            for n in ins:
                self.io.input_grammar.defaults[n] = array([0.0] * (nx if n == "x" else 1))

        def _tick(self, kind, data):
            counter.k += 1
            counter.calls.append((counter.k, self.name, kind, tuple(float(t.real) for t in data["x"])))
            if counter.hook is not None:
                counter.hook(counter.k)

        def _run(self, input_data):
            self._tick("run", input_data)
            return self.compute(input_data)

        def _compute_jacobian(self, input_names=(), output_names=()):
            self._tick("jac", self.io.data)
            self.jac = self.partials(self.io.data)

    a = 0.2 + 0.1 * v
    b = 0.3 - 0.05 * v

    class D1(Base):
        def __init__(self):
            super().__init__("D1", ["x", "y2"], ["y1"])

        def compute(self, d):
            return {"y1": array([float(d["x"] @ d["x"])]) + a * d["y2"]}

        def partials(self, d):
            return {"y1": {"x": atleast_2d(2 * d["x"]), "y2": atleast_2d([a])}}

    class D2(Base):
        def __init__(self):
            super().__init__("D2", ["x", "y1"], ["y2"])

        def compute(self, d):
            return {"y2": b * d["y1"] + d["x"][:1]}

        def partials(self, d):
            e = [1.0] + [0.0] * (nx - 1)
            return {"y2": {"x": atleast_2d(e), "y1": atleast_2d([b])}}

    class D3(Base):
        def __init__(self):
            super().__init__("D3", ["x", "y1", "y2"], ["f", G])

        def compute(self, d):
            return {"f": (d["y1"] - 1) ** 2 + (d["y2"] + 0.5) ** 2 + 0.1 * v * d["x"][-1:] ** 2,
                    G: d["y1"] + d["y2"] - 1.0}

        def partials(self, d):
            dx = [0.0] * (nx - 1) + [0.2 * v * float(d["x"][-1])]
            return {
                "f": {"x": atleast_2d(dx), "y1": atleast_2d(2 * (d["y1"] - 1)), "y2": atleast_2d(2 * (d["y2"] + 0.5))},
                G: {"x": atleast_2d([0.0] * nx), "y1": atleast_2d([1.0]), "y2": atleast_2d([1.0])},
            }

    class DSingle(Base):
        def __init__(self):
            super().__init__("D", ["x"], ["f", G])

        def compute(self, d):
            x = d["x"]
            s = x @ x  # (complex-safe: complex-step differentiation perturbs x along the imaginary axis)
            return {"f": array([(x[0] - 1) ** 2 + (1 + v) * (s - x[0] ** 2) + 0.5 * x[0]]), G: array([x.sum() - 1.0])}

        def partials(self, d):
            x = d["x"]
            df = 2 * (1 + v) * x
            df[0] = 2 * (x[0] - 1) + 0.5
            return {"f": {"x": atleast_2d(df)}, G: {"x": atleast_2d([1.0] * nx)}}

    class DF(Base):
        def __init__(self):
            super().__init__("DF", ["x"], ["f"])

        def compute(self, d):
            return {"f": DSingle.compute(self, d)["f"]}

        def partials(self, d):
            return {"f": DSingle.partials(self, d)["f"]}

    class DG(Base):
        def __init__(self):
            super().__init__("DG", ["x"], [G])

        def compute(self, d):
            return {G: DSingle.compute(self, d)[G]}

        def partials(self, d):
            return {G: DSingle.partials(self, d)[G]}

    if cfg["formulation"] == "MDF":
        return [D1(), D2(), D3()]
    class DO(Base):
        """A monitoring discipline: its output is an observable, evaluated by the driver at each new iteration."""

        def __init__(self):
            super().__init__("DO", ["x"], ["o"])

        def compute(self, d):
            return {"o": array([float(d["x"].sum()) + v])}

        def partials(self, d):
            return {"o": {"x": atleast_2d([1.0] * nx)}}

    if cfg["formulation"] == "IDF":
        # objective and constraint come from separate disciplines, each executed only when its own
        # function is evaluated: a crash can fall between the two at one point
        return [DF(), DG()] + ([DO()] if cfg.get("observable") else [])
    return [DSingle()]


def build(cfg, path, counter, load):
    from gemseo import create_design_space, create_scenario

    ds = create_design_space()
    ds.add_variable("x", size=cfg["nx"], lower_bound=-2.0, upper_bound=2.0, value=array([1.5, -0.5][: cfg["nx"]]))
    discs = _make_disciplines(cfg, counter)
    kw = {}
    if cfg["formulation"] == "MDF":
        kw["main_mda_name"] = cfg["mda"]
        # converge the MDA to round-off so that a restarted run (cold MDA start) and the
        # uninterrupted run (warm start) record the same values up to round-off
        kw["main_mda_settings"] = {"tolerance": 1e-14, "max_mda_iter": 60}
        if cfg["mda"] == "MDAJacobi":
            kw["main_mda_settings"]["n_processes"] = 1
        elif cfg["mda"] == "MDAJacobi/threads":
            # the disciplines of one MDA iteration run on worker threads: "the k-th discipline execution"
            # then depends on the schedule, which the thread scheduler draws from the tape
            kw["main_mda_name"] = "MDAJacobi"
            kw["main_mda_settings"].update(n_processes=cfg["mda_workers"], use_threading=True)
    if cfg.get("maximize"):
        kw["maximize_objective"] = True  # (the history then records the standardised objective under the name "-f")
    sc = create_scenario(discs, "f", ds, formulation_name=cfg["formulation"], scenario_type=cfg["kind"], **kw)
    if cfg["constrained"]:
        sc.add_constraint(cfg.get("gname", "g"), constraint_type="ineq")
    if cfg.get("observable") and cfg["formulation"] == "IDF":
        sc.add_observable("o")
    if cfg.get("complex_step"):
        # derivatives by complex step: the design space becomes complex and the database holds the initial point under a
        # complex key next to the float keys of the optimiser's points
        sc.set_differentiation_method("complex_step", 1e-30)
    sc.set_optimization_history_backup(
        path, at_each_iteration=cfg["each_iter"], at_each_function_call=cfg["each_call"], load=load
    )
    return sc


def algo_settings(cfg, restart=False):
    s = {"algo_name": cfg["algo"]}
    if cfg["kind"] == "MDO":
        s["max_iter"] = cfg["max_iter"]
        s["normalize_design_space"] = cfg["normalize"]
        if restart and cfg.get("keep_counter_on_restart"):
            # the restarted execution keeps the evaluation counter restored from the backup: the budget
            # then covers loaded + new evaluations, like the uninterrupted run
            s["reset_iteration_counters"] = False
    else:
        if cfg["algo"] == "CustomDOE":
            s["samples"] = array(cfg["samples"])
        elif cfg["algo"] == "PYDOE_LHS":
            s["n_samples"] = cfg["n_samples"]
            s["random_state"] = cfg["doe_seed"]
        else:
            s["n_samples"] = cfg["n_samples"]
    return s


def _norm(v):
    a = array(v)
    if a.dtype.kind == "c" and not a.imag.any():
        a = a.real  # (the history file keeps the real part of the values, by design)
    return canon(a)


def _key(arr):
    """Database key as a tuple; points of complex dtype (complex-step differentiation) are other entries than the
    float points holding the same numbers."""
    t_ = tuple(arr.tolist())
    return ("complex", *t_) if arr.dtype.kind == "c" else t_


def dump_db(db):
    return [
        (_key(x.wrapped_array), tuple((k, _norm(v)) for k, v in sorted(o.items())))
        for x, o in db.items()
    ]


def load_image(path):
    from gemseo.algos.database import Database

    return dump_db(Database.from_hdf(path))


def state_from_events(base, events):
    st = {x: dict(o) for x, o in base}
    for x, outs in events:
        st.setdefault(x, {}).update(outs)
    return [(x, tuple(sorted(o.items()))) for x, o in st.items()]


class Recorder:
    """Records the store events of one problem database (before listeners fire)."""

    def __init__(self, db):
        from gemseo.algos.database import Database

        self.db = db
        self.events = []
        self.new_entry_marks = []
        self._cls = Database
        self._orig = Database.store
        rec = self

        def store(self_db, x_vect, outputs):
            if self_db is rec.db:
                hx = self_db.get_hashable_ndarray(x_vect)
                was_empty = not self_db.get(hx)
                rec.events.append((_key(hx.wrapped_array), {k: _norm(v) for k, v in outputs.items()}))
                if was_empty and outputs:
                    rec.new_entry_marks.append(len(rec.events))
            return rec._orig(self_db, x_vect, outputs)

        self._store = store

    def __enter__(self):
        self._cls.store = self._store
        return self

    def __exit__(self, *a):
        self._cls.store = self._orig


def open_hdf5_files():
    import h5py

    return h5py.h5f.get_obj_count(h5py.h5f.OBJ_ALL, h5py.h5f.OBJ_FILE)


def run_with_snapshots(ctx, cfg, path, load, snap_dir, label):
    """Run a scenario to completion; snapshot the backup file at every discipline call."""
    counter = _Counter()
    sc = build(cfg, path, counter, load)
    problem = sc.formulation.optimization_problem
    loaded = dump_db(problem.database)
    snaps = {}
    open_at = []
    rec = Recorder(problem.database)

    # Every crash image is loaded and compared on the spot (the check stays exhaustive over k); a copy
    # of the file is only KEPT for a bounded, deterministic subset of k (at most MAX_KEPT, thinned by
    # doubling strides), from which the restarts and the real-death cross-checks are chosen.
    images = {}  # k -> (exists, n_events, dump or exception)
    kept = {}
    stride = [1]

    def hook(k):
        n_open = open_hdf5_files()
        if n_open:
            open_at.append((k, n_open))
        p = None
        exists = os.path.exists(path)
        content = None
        if exists:
            try:
                content = load_image(path)
            except Exception as exc:  # noqa: BLE001
                content = exc
            if k % stride[0] == 0:
                p = os.path.join(snap_dir, f"{label}_{k}.h5")
                shutil.copyfile(path, p)
                kept[k] = p
        images[k] = (exists, content)
        snaps[k] = (p, len(rec.events))
        if len(kept) > MAX_KEPT:
            stride[0] *= 2
            for kk in [kk for kk in kept if kk % stride[0]]:
                os.unlink(kept.pop(kk))
                snaps[kk] = (None, snaps[kk][1])

    counter.hook = hook
    error = None
    threaded = cfg["formulation"] == "MDF" and cfg["mda"] == "MDAJacobi/threads"
    fail_at = cfg.get("fail_first_at", 0)
    if fail_at:
        # a first execution in which a discipline RAISES at its fail_at-th call (the user catches the error and executes
        # the scenario again): the backup goes on afterwards, crash points of both executions are checked (wave 11, C12l)
        armed = [True]

        def failing_hook(k):
            hook(k)
            if armed[0] and k == fail_at:
                armed[0] = False
                raise RuntimeError("injected discipline failure")

        counter.hook = failing_hook
        with rec:
            try:
                sc.execute(**algo_settings(cfg, load))
            except RuntimeError as exc:
                if "injected discipline failure" not in str(exc):
                    raise
                ctx.probe("first_execution_failed_then_executed_again")
        sc.execution_status.value = sc.execution_status.Status.DONE
    with rec:
        try:
            if threaded:
                from ..clock import SimClock
                from ..sched import Deadlock
                from ..seams import thread_simulation

                with thread_simulation(ctx, SimClock(), with_locks=True, step_cap=400000, log_schedule=False):
                    sc.execute(**algo_settings(cfg, load))
                ctx.probe("scenario_run_under_thread_scheduler")
            else:
                sc.execute(**algo_settings(cfg, load))
        except Exception as exc:  # noqa: BLE001
            error = exc
    if cfg.get("second_exec_jac") and error is None:
        with rec:
            try:
                sc.execution_status.value = sc.execution_status.Status.DONE
                sc.execute(**algo_settings(cfg, load), eval_jac=True)
                ctx.probe("second_execution_stores_on_old_entries")
            except Exception as exc:  # noqa: BLE001
                error = exc
    res = sc.optimization_result
    return {
        "K": counter.k, "calls": counter.calls, "snaps": snaps, "events": rec.events, "marks": rec.new_entry_marks,
        "final": dump_db(problem.database), "loaded": loaded, "open_at": open_at, "error": error, "result": res,
        "problem": problem, "stop_message": str(getattr(res, "message", "")), "images": images,
    }


def expected_image(cfg, run, k):
    p, j = run["snaps"][k]
    if cfg["each_call"]:
        jj = j
    else:
        jj = max([m for m in run["marks"] if m <= j], default=0)
    return jj, state_from_events([(x, dict(o)) for x, o in run["loaded"]], run["events"][:jj])


def draw_config(t):
    kind = "MDO" if t.flag(0.7, "kind_mdo") else "DOE"
    formulation = ["DisciplinaryOpt", "MDF", "IDF"][t.weighted([3, 3, 2], "formulation")]
    cfg = {
        "kind": kind, "formulation": formulation, "mda": ["MDAGaussSeidel", "MDAJacobi", "MDAJacobi/threads"][t.weighted([3, 2, 2], "mda")],
        "mda_workers": t.randint(2, 3, "mda_workers"),
        "nx": t.randint(1, 2, "nx"), "variant": t.choice(3, "variant"),
    }
    cfg["observable"] = formulation == "IDF" and t.flag(0.5, "observable")
    cfg["gname"] = "G" if t.flag(0.3, "mixed_case_names") else "g"
    cfg["maximize"] = kind == "MDO" and t.flag(0.25, "maximize_objective")
    mode = t.weighted([3, 3, 1], "backup_mode")
    cfg["each_call"] = mode in (0, 2)
    cfg["each_iter"] = mode in (1, 2)
    if kind == "MDO":
        cfg["algo"] = t.pick(MDO_ALGOS, "algo")
        cfg["constrained"] = cfg["algo"] not in UNCONSTRAINED_ONLY and t.flag(0.7, "constrained")
        cfg["max_iter"] = t.randint(3, 12, "max_iter")
        cfg["normalize"] = t.flag(0.4, "normalize")
        cfg["keep_counter_on_restart"] = t.flag(0.5, "keep_counter_on_restart")
        cfg["complex_step"] = formulation == "DisciplinaryOpt" and cfg["algo"] in ("SLSQP", "L-BFGS-B", "NLOPT_SLSQP") and t.flag(0.35, "complex_step")
    else:
        cfg["algo"] = t.pick(DOE_ALGOS, "algo")
        cfg["constrained"] = t.flag(0.5, "constrained")
        cfg["n_samples"] = t.randint(2, 7, "n_samples")
        cfg["doe_seed"] = 1 + t.choice(20, "doe_seed")
        cfg["normalize"] = False
        if cfg["algo"] == "CustomDOE":
            cfg["samples"] = [[t.randint(-4, 4, f"s[{i}][{j}]") / 2.0 for j in range(cfg["nx"])] for i in range(cfg["n_samples"])]
        if cfg["formulation"] != "MDF" and t.flag(0.25, "first_execution_fails"):
            cfg["fail_first_at"] = t.randint(1, 4, "fail_first_at")
        elif cfg["formulation"] != "MDF" and t.flag(0.6, "second_execution_with_jacobians"):
            # the DOE is executed again with eval_jac=True: new outputs land on OLD entries while the backup is active
            cfg["second_exec_jac"] = True
    return cfg


def run(ctx):
    t = ctx.tape
    cfg = draw_config(t)
    ctx.event("cfg", canon(cfg))
    sig_base = f"{cfg['kind']} {cfg['formulation']} {cfg['algo']} " + ("call" if cfg["each_call"] else "") + ("iter" if cfg["each_iter"] else "")
    scratch = str(ctx.scratch)
    ref_path = os.path.join(scratch, "ref.h5")
    ref = run_with_snapshots(ctx, cfg, ref_path, False, scratch, "ref")
    if ref["error"] is not None:
        raise RuntimeError(f"reference run failed: {ref['error']!r} cfg={cfg}")
    K = ref["K"]
    ctx.event("ref", K, len(ref["events"]), tuple(ref["final"]))
    all_names = {}
    for x, outs in ref["events"]:
        all_names.setdefault(x, set()).update(outs)
    budget_stop = "Maximum number of iterations reached" in ref["stop_message"]
    if budget_stop:
        ctx.probe("reference_stopped_on_budget")
    n_pairs = 0
    n_nonempty = 0
    # --- oracle 1+2 on every crash point ------------------------------------------------
    check_images(ctx, cfg, ref, sig_base, "single")
    for k in range(1, K + 1):
        ctx.fire("process_death_at_discipline_call(snapshot)")
        n_pairs += 1
        if ref["snaps"][k][0] is not None:
            n_nonempty += 1
    # --- restarts ---------------------------------------------------------------------------
    candidates = [k for k in range(1, K + 1) if ref["snaps"][k][0] is not None]
    if cfg.get("fail_first_at") or cfg.get("second_exec_jac"):
        candidates = []  # (failed-then-re-executed runs: crash images only, no restart protocol)
    if ctx.tier == "thorough" and t.flag(0.5, "restart_all") and len(candidates) <= 150:
        chosen = candidates
    elif ctx.tier == "thorough" and candidates:
        n_restart = min(len(candidates), 8 + t.choice(33, "n_restart_many"))
        chosen = sorted({candidates[t.choice(len(candidates), f"restart_k[{i}]")] for i in range(n_restart)})
    else:
        n_restart = min(len(candidates), 1 + t.choice(5, "n_restart"))
        chosen = sorted({candidates[t.choice(len(candidates), f"restart_k[{i}]")] for i in range(n_restart)}) if candidates else []
    paths = []
    for k in chosen:
        with t.frame("restart"):
            depth = 1 + t.weighted([5, 3, 1], "crash_depth") - 1
            crash_path = [k]
            image = ref["snaps"][k][0]
            prev = ref
            for level in range(depth + 1):
                p = os.path.join(scratch, f"restart_{'_'.join(map(str, crash_path))}.h5")
                shutil.copyfile(image, p)
                label = "r" + "_".join(map(str, crash_path))
                rr = run_with_snapshots(ctx, cfg, p, True, scratch, label)
                ctx.fire("restart_from_backup")
                check_restart(ctx, cfg, ref, rr, image, crash_path, all_names, sig_base, budget_stop)
                check_images(ctx, cfg, rr, sig_base, "after-restart")
                n_pairs += rr["K"]
                paths.append(tuple(crash_path))
                if level == depth or rr["K"] == 0:
                    break
                # crash again inside the restarted run
                cand2 = [kk for kk in range(1, rr["K"] + 1) if rr["snaps"][kk][0] is not None]
                if not cand2:
                    break
                k2 = cand2[t.choice(len(cand2), "k_next")]
                crash_path.append(k2)
                image = rr["snaps"][k2][0]
                ctx.fire("repeated_crash")
                prev = rr
    # --- real deaths -------------------------------------------------------------------------
    n_real = 0
    threaded = cfg["formulation"] == "MDF" and cfg["mda"] == "MDAJacobi/threads"
    if K and not threaded and not cfg.get("fail_first_at") and not cfg.get("second_exec_jac") and t.flag(0.5 if ctx.tier == "quick" else 0.8, "real_death"):
        for i in range(1 + t.choice(2, "n_real")):
            k = 1 + t.choice(K, f"real_k[{i}]")
            real_death_crosscheck(ctx, cfg, ref, k, scratch, sig_base)
            n_real += 1
    ctx.case((canon(cfg), tuple(paths)), nontrivial=n_nonempty > 0)
    ctx.probes["crash_points_enumerated"] += K
    ctx.probes["config_k_pairs_checked"] += n_pairs
    ctx.sample = {"cfg": cfg, "K": K, "events": len(ref["events"]), "entries": len(ref["final"]), "restart_paths": [list(p) for p in paths],
                  "real_deaths": n_real, "reference_stop": ref["stop_message"][:60]}


def check_images(ctx, cfg, run_, sig_base, phase):
    if run_["open_at"]:
        ctx.violate("C12.file_closed_during_discipline", sig_base, f"HDF5 file objects open during discipline calls {run_['open_at'][:5]}; cfg={cfg}")
    names_at = {}
    for x, o in run_["loaded"]:
        names_at.setdefault(x, set()).update(k for k, _ in o)
    for x, outs in run_["events"]:
        names_at.setdefault(x, set()).update(outs)
    for k in range(1, run_["K"] + 1):
        _, j = run_["snaps"][k]
        exists, got = run_["images"][k]
        jj, exp = expected_image(cfg, run_, k)
        if not exists:
            if jj and not run_["loaded"]:
                ctx.violate("C12.prefix", f"{sig_base} {phase} missing-file", f"crash at call {k}: {jj} events should have been exported but the backup file does not exist; cfg={cfg}")
            continue
        if isinstance(got, Exception):
            ctx.violate("C12.loadable", f"{sig_base} {phase}", f"image of crash at call {k} cannot be loaded: {got!r}; cfg={cfg}")
        if got != exp:
            diff = next(((a, b) for a, b in zip(got, exp) if a != b), (len(got), len(exp)))
            ctx.violate("C12.prefix", f"{sig_base} {phase}", f"image of crash at call {k} (events before crash: {j}, exported prefix: {jj}) differs from the uninterrupted history prefix: first difference file/expected = {diff}; cfg={cfg}")
        if len(got):
            ctx.probe("nonempty_image")
            if any(len(o) < len(names_at.get(x, ())) for x, o in got):
                ctx.probe("image_with_partially_evaluated_point")


def run_and_names(run_, x):
    names = set()
    for xx, outs in run_["events"]:
        if xx == x:
            names.update(outs)
    for xx, o in run_["loaded"]:
        if xx == x:
            names.update(k for k, _ in o)
    return names


def check_restart(ctx, cfg, ref, rr, image, crash_path, all_names, sig_base, budget_stop):
    depth = len(crash_path)
    sig = f"{sig_base} restart depth={depth}"
    if rr["error"] is not None:
        ctx.violate("C12.restart_completes", sig, f"restart after crash path {crash_path} raised {rr['error']!r}; cfg={cfg}")
    loaded = rr["loaded"]
    final = rr["final"]
    # loaded entries are kept: prefix of the final database, unchanged (a loaded partial entry may gain outputs)
    for idx, (x, o) in enumerate(loaded):
        if idx >= len(final) or final[idx][0] != x:
            ctx.violate("C12.restart_keeps_loaded", sig, f"loaded entry {idx} at {x} is not entry {idx} of the restarted database; crash path {crash_path}; cfg={cfg}")
        fo = dict(final[idx][1])
        for name, val in o:
            if fo.get(name) != val:
                ctx.violate("C12.restart_keeps_loaded", sig, f"loaded value {name} at {x} changed from {val} to {fo.get(name)}; crash path {crash_path}; cfg={cfg}")
    if loaded and any(len(o) < len(all_names.get(x, ())) for x, o in loaded):
        ctx.probe("restart_hit_partially_exported_point")
    # no rework at complete loaded points
    complete = {x for x, o in loaded if x in all_names and {n for n, _ in o} >= all_names[x]}
    rework = [(k, name, kind) for k, name, kind, x in rr["calls"] if x in complete]
    if rework:
        ctx.violate("C12.no_rework", sig, f"disciplines re-executed at points stored completely in the backup: {rework[:6]} (crash path {crash_path}); cfg={cfg}")
    # optimum at least as good as the best loaded one
    if cfg["kind"] == "MDO" and rr["result"] is not None and loaded:
        tol = 1e-6 if cfg["constrained"] else None
        feas = []
        for x, o in loaded:
            od = dict(o)
            fname = "-f" if cfg.get("maximize") else "f"
            if fname not in od:
                continue
            if cfg["constrained"]:
                if cfg.get("gname", "g") not in od:
                    continue
                g = [float(v) for v in od[cfg.get("gname", "g")][3]]
                if max(g) > 1e-4:  # default ineq tolerance of the drivers
                    continue
            feas.append(float(od[fname][3][0]))
        if feas:
            res = rr["result"]
            if not res.is_feasible:
                ctx.violate("C12.restart_optimum", sig, f"loaded history holds a feasible point but the restarted run reports an infeasible optimum; crash path {crash_path}; cfg={cfg}")
            f_std = float(res.f_opt)  # (with the default use_standardized_objective the result reports the standardised objective)
            if f_std > min(feas) + 1e-12:
                ctx.violate("C12.restart_optimum", sig, f"restarted optimum f={res.f_opt} is worse than the best loaded feasible point f={min(feas)}; crash path {crash_path}; cfg={cfg}")
    # same history as the uninterrupted run
    if not cfg["normalize"]:
        ref_final = ref["final"]
        lacking, got_o = set(), set()
        if cfg.get("observable"):
            # an observable is evaluated by the driver when a NEW point appears: a loaded point whose observable was not
            # yet stored when the run died never gets it (reported apart, with its own signature)
            lacking = {x for x, o in loaded if "o" not in {n for n, _ in o} and "o" in all_names.get(x, ())}
            got_o = {x for x, o in final if "o" in {n for n, _ in o}}
            if lacking - got_o:
                ctx.violate(
                    "C12.same_history", "MDO/DOE observable-not-evaluated-at-loaded-point",
                    f"the run died after the objective of {sorted(lacking - got_o)} was stored and before its observable was: the restarted run never evaluates "
                    f"the observable there, the uninterrupted run records it (crash path {crash_path}); cfg={cfg}", fatal=False)
                ref_final = [(x, tuple((n, v) for n, v in o if not (n == "o" and x in lacking - got_o))) for x, o in ref_final]
        if not same_history(final, ref_final, cfg):
            if cfg.get("observable") and lacking - got_o and len(final) > len(ref_final) and same_history(final[: len(ref_final)], ref_final, cfg):
                # same finding: the iteration of a point whose observable call killed the run is never completed after the
                # restart (the point is not new), so neither the observable nor the stopping criteria of that iteration are
                # evaluated: when that point is the one at which the uninterrupted run stopped, the restarted run goes on
                ctx.probe("restart_extends_history_after_death_in_observable")
            elif "closer than" in ref["stop_message"] and ref_final and ref_final[-1][0] in {x for x, _ in loaded} and _extends(final, ref_final, cfg):
                # the uninterrupted run was stopped by a tolerance criterion at a point that the backup already held when the run
                # died: the restarted run finds that point in the database, it is not a new iteration, the criterion is not
                # evaluated there and the run goes on
                ctx.violate(
                    "C12.same_history", "MDO restart-continues-past-the-tolerance-stop-of-a-loaded-point",
                    f"the uninterrupted run stopped on '{ref['stop_message'][:60]}' at {ref_final[-1][0]}, a point the loaded backup holds: the restarted run "
                    f"(crash path {crash_path}) does not evaluate the criterion there and records {len(final)} entries instead of {len(ref_final)}; cfg={cfg}",
                    fatal=False,
                )
            elif budget_stop and not cfg.get("keep_counter_on_restart") and len(final) > len(ref_final) and same_history(final[: len(ref_final)], ref_final, cfg):
                ctx.violate(
                    "C12.same_history", f"{cfg['kind']} reference-stopped-on-max_iter restarted-run-extends-history",
                    f"the uninterrupted run stopped on max_iter={cfg.get('max_iter')} with {len(ref_final)} entries; restarted after crash path {crash_path} "
                    f"(loaded {len(loaded)} entries) the run got a fresh budget and recorded {len(final)} entries (the reference history is a strict prefix); cfg={cfg}",
                    fatal=False,
                )
            else:
                diff = next(((i, a, b) for i, (a, b) in enumerate(zip(final, ref_final)) if a != b), (min(len(final), len(ref_final)), len(final), len(ref_final)))
                ctx.violate("C12.same_history", sig, f"restarted run (crash path {crash_path}, loaded {len(loaded)}) ends with a different history than the uninterrupted run: first difference {diff}; cfg={cfg}")
        else:
            ctx.probe("restart_reproduced_reference_history")


def _vals(c):
    return [float(v) for v in c[3]]


def same_history(a, b, cfg):
    """Exact for a single discipline; up to MDA round-off (rtol 1e-7) for MDF.

    In MDF a restarted run starts its MDAs cold where the uninterrupted run starts them warm: new points carry round-off
    level differences, which a gradient-based optimiser may amplify from one iteration to the next. Once an entry differs
    at round-off level (below 1e-7), later and larger differences are that amplification, not a verdict.
    """
    if cfg["formulation"] != "MDF":
        return a == b
    from numpy import allclose

    round_off_seen = False
    for (xa, oa), (xb, ob) in zip(a, b):
        if round_off_seen:
            return True
        if len(xa) != len(xb) or not allclose(xa, xb, rtol=1e-7, atol=1e-9):
            return False
        if [n for n, _ in oa] != [n for n, _ in ob]:
            return False
        for (_, va), (_, vb) in zip(oa, ob):
            if va[1] != vb[1] or not allclose(_vals(va), _vals(vb), rtol=1e-7, atol=1e-9):
                return False
        if (xa, oa) != (xb, ob):
            round_off_seen = True
    return round_off_seen or len(a) == len(b)


def _extends(final, ref_final, cfg):
    """The restarted history holds the reference history (same points in order, at least the same outputs with the
    same values) and possibly more."""
    if len(final) < len(ref_final):
        return False
    for (xa, oa), (xb, ob) in zip(final, ref_final):
        if xa != xb:
            return False
        da = dict(oa)
        for n, v in ob:
            if n not in da or not same_history([(xa, ((n, da[n]),))], [(xb, ((n, v),))], cfg):
                return False
    return True


def real_death_crosscheck(ctx, cfg, ref, k, scratch, sig_base):
    """Fork a child that runs the same scenario and dies with os._exit inside discipline call k."""
    p = os.path.join(scratch, f"death_{k}.h5")
    if os.path.exists(p):
        os.unlink(p)
    pid = os.fork()
    if pid == 0:
        try:
            counter = _Counter()

            def die(n):
                if n == k:
                    os._exit(77)

            counter.hook = die
            sc = build(cfg, p, counter, False)
            sc.execute(**algo_settings(cfg))
        except BaseException:  # noqa: BLE001
            os._exit(78)
        os._exit(0)
    _, status = os.waitpid(pid, 0)
    code = os.WEXITSTATUS(status) if os.WIFEXITED(status) else -1
    if code != 77:
        raise RuntimeError(f"child for real death at k={k} ended with status {status} (code {code}); cfg={cfg}")
    ctx.fire("process_death_at_discipline_call(os._exit)")
    exists, content = ref["images"][k]
    a = load_image(p) if os.path.exists(p) else None
    b = content if exists else None
    ctx.event("real_death", k, canon(a))
    if a != b:
        ctx.violate("C12.prefix", f"{sig_base} real-death", f"file left by a real process death at call {k} differs from the snapshot image: {a} vs {b}; cfg={cfg}")
