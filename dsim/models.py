"""Harness disciplines and functions: the "clients" of the simulated system.

They are deliberately simple, exactly differentiable and deterministic, and every call
goes through a hook so that the fault plan of a run can make it yield, fail or die.
"""

from __future__ import annotations

from numpy import array, atleast_2d, full, ones, zeros

from gemseo.core.discipline import Discipline


class InjectedFailure(ValueError):
    """A failure injected by the fault plan."""


class HDisc(Discipline):
    """y_o = b_o + sum_i (A_oi x_i + c_o (x_i.x_i) 1)."""

    def __init__(self, name, in_names, out_names, sizes, salt=0, hook=None, defaults=True):
        super().__init__(name)
        self.io.input_grammar.update_from_names(list(in_names))
        self.io.output_grammar.update_from_names(list(out_names))
        self.h_in = list(in_names)
        self.h_out = list(out_names)
        self.h_sizes = dict(sizes)
        self.h_salt = salt
        self.hook = hook
        self.n_run = 0
        self.n_jac = 0
        self.run_inputs = []
        self.h_inplace = False  # the body overwrites its writeable input arrays in place (legal: its own copy)
        if defaults:
            for k, n in enumerate(self.h_in):
                self.io.input_grammar.defaults[n] = full(self.h_sizes[n], 0.5 + 0.25 * k)
        self._coef = {}
        for oi, o in enumerate(self.h_out):
            for ii, i in enumerate(self.h_in):
                m, n = self.h_sizes[o], self.h_sizes[i]
                a = zeros((m, n))
                for r in range(m):
                    for c in range(n):
                        a[r, c] = (((r + 1) * 3 + (c + 1) * 5 + oi * 7 + ii * 11 + salt * 13) % 9 - 4) / 8.0
                self._coef[o, i] = a
        self._c = {o: ((oi + salt) % 3) / 10.0 for oi, o in enumerate(self.h_out)}
        self._b = {o: (oi + 1 + salt) / 4.0 for oi, o in enumerate(self.h_out)}

    # pure function used by the oracles (no counters, no hook)
    def f(self, data):
        out = {}
        for o in self.h_out:
            y = full(self.h_sizes[o], self._b[o])
            for i in self.h_in:
                x = array(data[i], dtype=float)
                y = y + self._coef[o, i] @ x + self._c[o] * float(x @ x)
            out[o] = y
        return out

    def df(self, data):
        jac = {}
        for o in self.h_out:
            jac[o] = {}
            for i in self.h_in:
                x = array(data[i], dtype=float)
                jac[o][i] = self._coef[o, i] + 2 * self._c[o] * ones((self.h_sizes[o], 1)) @ atleast_2d(x)
        return jac

    def _run(self, input_data):
        self.n_run += 1
        snap = {k: array(input_data[k], dtype=float, copy=True) for k in self.h_in}
        self.run_inputs.append(snap)
        if self.h_inplace:
            for k in self.h_in:
                v = input_data[k]
                if getattr(v, "flags", None) is not None and v.flags.writeable:
                    v[...] = -7.0 - self.h_salt
        if self.hook is not None:
            self.hook(self, "run", snap)
        return self.f(snap)

    def _compute_jacobian(self, input_names=(), output_names=()):
        self.n_jac += 1
        # HDisc has no self-coupled variable: io.data holds the inputs of the linearisation
        snap = {k: array(self.io.data[k], dtype=float) for k in self.h_in}
        if self.hook is not None:
            self.hook(self, "jac", snap)
        self.jac = self.df(snap)


def default_inputs(disc):
    return {k: array(v, copy=True) for k, v in disc.io.input_grammar.defaults.items()}
