"""Fan-out runner, replay, minimisation, known findings and evidence."""

from __future__ import annotations

import faulthandler
import hashlib
import importlib
import json
import multiprocessing
import os
import re
import signal
import subprocess
import sys
import time
import traceback
from collections import Counter
from concurrent.futures import ProcessPoolExecutor, as_completed
from concurrent.futures.process import BrokenProcessPool
from pathlib import Path

from .core import Ctx, Inconclusive, StopRun, Violation
from .tape import Tape, tape_seed

VERIF = Path(__file__).resolve().parent.parent
EVIDENCE_DIR = Path(os.environ.get("VERIF_EVIDENCE_DIR") or VERIF / "evidence")
REPLAY_DIR = Path(os.environ.get("VERIF_REPLAY_DIR") or VERIF / "replays")
KNOWN_FINDINGS = VERIF / "known_findings.json"

LEVELS = {
    "C12": "fault_enumeration",
}


def machine_module(name: str):
    return importlib.import_module(f"dsim.machines.{name}")


# --------------------------------------------------------------------------------
# one run
# --------------------------------------------------------------------------------
def execute_run(mod, seed: int, run_index: int, tier: str, values=None, keep_tape=False):
    """Execute one simulated run; never raises."""
    salt = int(hashlib.sha256(mod.NAME.encode()).hexdigest()[:6], 16)
    tape = Tape(seed=tape_seed(seed, run_index, salt), values=values)
    ctx = Ctx(tape, tier=tier, machine=mod.NAME, run_index=run_index)
    res = {
        "run": run_index,
        "status": "ok",
        "violations": [],
        "error": None,
    }
    timeout = getattr(mod, "TIMEOUT", 120)
    faulthandler.dump_traceback_later(timeout, exit=True, file=sys.__stderr__)
    # safety net against endless loops inside third-party optimisers: CPU-time based, turns a
    # runaway run into an "inconclusive" verdict (counted in the evidence, never a VIOLATION)
    cpu_limit = getattr(mod, "CPU_LIMIT", 0)
    guard = {"fired": False}
    if cpu_limit:
        def _on_cpu_limit(signum, frame):
            # The exception may be raised inside a callback of a C library that swallows or converts it (NLopt turns it
            # into another error): the flag makes the run inconclusive whatever comes out of it.
            guard["fired"] = True
            raise Inconclusive(f"CPU limit of {cpu_limit}s reached")

        signal.signal(signal.SIGVTALRM, _on_cpu_limit)
        signal.setitimer(signal.ITIMER_VIRTUAL, cpu_limit)
    try:
        mod.run(ctx)
    except StopRun:
        pass
    except Inconclusive as exc:
        res["status"] = "inconclusive"
        res["error"] = str(exc)
    except BaseException:  # noqa: BLE001 - harness error, reported apart from violations
        res["status"] = "harness_error"
        res["error"] = traceback.format_exc()[-3000:]
    finally:
        if cpu_limit:
            signal.setitimer(signal.ITIMER_VIRTUAL, 0)
        faulthandler.cancel_dump_traceback_later()
        try:
            ctx.cleanup()
        except Exception:  # noqa: BLE001
            pass
    if guard["fired"]:
        res["status"] = "inconclusive"
        res["error"] = f"CPU limit of {cpu_limit}s reached"
        ctx.violations.clear()
    res["violations"] = [v.as_dict() for v in ctx.violations]
    res["digest"] = ctx.digest()
    if ctx.probes.get("real_worker_processes_outside_the_simulator"):
        # gemseo's own forked workers (parallel MultiStart) are real processes: which of them takes which task is the
        # kernel's choice, and what a task records depends on it (seen at high load: 4 runs out of 32). The verdict
        # of such a run stands; its event log is not compared between executions.
        res["digest"] = "unscheduled-real-workers"
    res["fired"] = dict(ctx.fired)
    res["probes"] = dict(ctx.probes)
    res["case_key"] = ctx.case_key
    res["nontrivial"] = ctx.nontrivial
    res["sample"] = ctx.sample
    res["sim_time"] = ctx.sim_time
    res["steps"] = ctx.steps
    res["collected"] = ctx.collected
    if keep_tape or res["violations"]:
        res["tape"] = tape.values()
        res["tape_desc"] = tape.describe()
        res["frames"] = tape.frames
    return res


def execute_run_isolated(mod, seed: int, run_index: int, tier: str):
    """Execute one run in a forked child with a hard CPU limit.

    A third-party optimiser looping forever inside C code cannot be interrupted by the Python-level CPU
    guard; the kernel kills the child instead (RLIMIT_CPU, i.e. independent of the machine load) and the
    run is reported as inconclusive - it is counted in the evidence and never a VIOLATION.
    """
    import pickle
    import resource

    r, w = os.pipe()
    pid = os.fork()
    if pid == 0:
        code = 0
        try:
            os.close(r)
            os.setsid()  # own session: whatever the run starts (manager, worker processes) is killed with it
            limit = int(getattr(mod, "CPU_LIMIT", 30)) + 20
            resource.setrlimit(resource.RLIMIT_CPU, (limit, limit + 5))
            res = execute_run(mod, seed, run_index, tier)
            payload = pickle.dumps(res)
            os.write(w, len(payload).to_bytes(8, "big"))
            view = memoryview(payload)
            while view:
                n = os.write(w, view[:65536])
                view = view[n:]
        except BaseException:  # noqa: BLE001
            code = 3
        finally:
            os._exit(code)
    os.close(w)
    # length-prefixed message: never wait for EOF (processes started by the run, e.g. a multiprocessing
    # manager, inherit the write end of the pipe and may outlive the child)
    import select

    buf = bytearray()
    need = None
    status = None
    while True:
        ready, _, _ = select.select([r], [], [], 0.2)
        if ready:
            chunk = os.read(r, 1 << 20)
            if chunk:
                buf += chunk
                if need is None and len(buf) >= 8:
                    need = int.from_bytes(buf[:8], "big")
                if need is not None and len(buf) >= 8 + need:
                    break
                continue
            break  # end of file: every writer is gone
        if status is None:
            done, st = os.waitpid(pid, os.WNOHANG)
            if done:
                status = st
        elif not ready:
            break  # the child is gone and nothing more is coming
    os.close(r)
    if status is None:
        _, status = os.waitpid(pid, 0)
    try:
        os.killpg(pid, signal.SIGKILL)  # leftovers of the run (e.g. a multiprocessing manager server)
    except (ProcessLookupError, PermissionError):
        pass
    data = bytes(buf[8:8 + need]) if need is not None and len(buf) >= 8 + need else b""
    if data:
        try:
            return pickle.loads(data)
        except Exception:  # noqa: BLE001
            pass
    sig = os.WTERMSIG(status) if os.WIFSIGNALED(status) else None
    return {
        "run": run_index, "status": "inconclusive", "violations": [], "digest": "killed",
        "error": f"isolated run killed (signal {sig}, status {status}): hard CPU limit or crash inside a third-party library",
        "fired": {}, "probes": {"run_killed_by_hard_cpu_limit": 1}, "case_key": None, "nontrivial": False, "sample": None,
        "sim_time": 0.0, "steps": 0, "collected": {},
    }


def _quiet():
    import logging
    import warnings

    logging.disable(logging.CRITICAL)
    warnings.filterwarnings("ignore")
    os.environ.setdefault("OMP_NUM_THREADS", "1")
    os.environ.setdefault("OPENBLAS_NUM_THREADS", "1")
    os.environ.setdefault("MKL_NUM_THREADS", "1")


def _worker_chunk(mname: str, seed: int, tier: str, indices, want_digests: bool):
    _quiet()
    mod = machine_module(mname)
    agg = {
        "machine": mname,
        "n": 0,
        "fired": Counter(),
        "probes": Counter(),
        "cases": set(),
        "samples": [],
        "violations": [],
        "inconclusive": 0,
        "harness_errors": [],
        "sim_time": 0.0,
        "steps": 0,
        "digests": {},
        "collected": {},
    }
    devnull = open(os.devnull, "w")
    old_err = sys.stderr
    if not os.environ.get("VERIF_DEBUG"):
        sys.stderr = devnull
    try:
        isolate = getattr(mod, "ISOLATE", False)
        if isolate and hasattr(mod, "warmup"):
            mod.warmup()  # import and build once what every forked child would otherwise rebuild
        for i in indices:
            r = execute_run_isolated(mod, seed, i, tier) if isolate else execute_run(mod, seed, i, tier)
            agg["n"] += 1
            agg["fired"].update(r["fired"])
            agg["probes"].update(r["probes"])
            agg["sim_time"] += r["sim_time"]
            agg["steps"] += r["steps"]
            for k, v in r["collected"].items():
                agg["collected"].setdefault(k, set()).update(v)
            if r["status"] == "inconclusive":
                agg["inconclusive"] += 1
                agg["probes"]["inconclusive: " + str(r.get("error", ""))[:70]] += 1
            elif r["status"] == "harness_error":
                agg["harness_errors"].append((i, r["error"]))
            if r["nontrivial"] and r["case_key"] is not None:
                agg["cases"].add(
                    hashlib.sha256(repr(r["case_key"]).encode()).hexdigest()[:16]
                )
            if r["sample"] is not None and len(agg["samples"]) < 2:
                agg["samples"].append({"run": i, **r["sample"]})
            if r["violations"]:
                agg["violations"].append(
                    {
                        "run": i,
                        "violations": r["violations"],
                        "tape": r["tape"],
                        "frames": r["frames"],
                        "digest": r["digest"],
                        "sample": r["sample"],
                    }
                )
            if want_digests and r["status"] != "inconclusive":
                # (a run cut by the CPU-time guard is cut at a load-dependent instant: it has no digest to compare)
                agg["digests"][i] = r["digest"]
    finally:
        sys.stderr = old_err
        devnull.close()
    return agg


# --------------------------------------------------------------------------------
# known findings
# --------------------------------------------------------------------------------
def load_known_findings():
    if not KNOWN_FINDINGS.exists():
        return []
    data = json.loads(KNOWN_FINDINGS.read_text())
    return [e for e in data.get("findings", []) if e.get("status", "open") == "open"]


def match_known(v: dict, findings):
    for e in findings:
        if e["property"] != v["property"] or e["clause"] != v["clause"]:
            continue
        if re.fullmatch(e["signature"], v["signature"]):
            return e
    return None


# --------------------------------------------------------------------------------
# minimisation
# --------------------------------------------------------------------------------
def _same_class(res, target):
    for v in res["violations"]:
        if v["clause"] == target["clause"] and v["signature"] == target["signature"]:
            return True
    return False


def minimise(mod, seed, tier, values, frames, target, budget=300):
    """Greedy shrinking of a tape while the same violation class persists."""
    best = list(values)
    best_frames = list(frames)
    n_exec = 0

    def attempt(cand):
        nonlocal n_exec, best, best_frames
        if n_exec >= budget or cand == best:
            return False
        n_exec += 1
        r = execute_run(mod, seed, -1, tier, values=cand, keep_tape=True)
        if r["status"] == "ok" or r["violations"]:
            if _same_class(r, target):
                new = r["tape"]
                # strip trailing zeros: exhausted tape reads as zeros anyway
                while new and new[-1] == 0:
                    new = new[:-1]
                # smaller = shorter, then fewer non-zero choices, then smaller values
                def key(tp):
                    return (len(tp), sum(1 for v in tp if v), sum(tp))

                if key(new) < key(best):
                    best = new
                    best_frames = r["frames"]
                    return True
        return False

    improved = True
    while improved and n_exec < budget:
        improved = False
        # 1. truncate
        for cut in (len(best) // 2, len(best) * 3 // 4, len(best) - 1):
            if 0 < cut < len(best) and attempt(best[:cut]):
                improved = True
                break
        # 2. delete frames (largest index first so earlier indices stay valid)
        for tag, s, e in sorted(best_frames, key=lambda f: -f[1]):
            if e > s and e <= len(best) and attempt(best[:s] + best[e:]):
                improved = True
                break
        if improved:
            continue
        # 3. zero then decrement single values
        for i in range(len(best)):
            if i >= len(best):
                break
            if best[i] != 0:
                if attempt(best[:i] + [0] + best[i + 1 :]):
                    improved = True
                elif best[i] > 1 and attempt(best[:i] + [best[i] - 1] + best[i + 1 :]):
                    improved = True
            if n_exec >= budget:
                break
    return best, n_exec


def _minimise_job(mname, seed, tier, values, frames, target):
    _quiet()
    mod = machine_module(mname)
    devnull = open(os.devnull, "w")
    old = sys.stderr
    sys.stderr = devnull
    try:
        best, n = minimise(mod, seed, tier, values, frames, target)
        r = execute_run(mod, seed, -1, tier, values=best, keep_tape=True)
    finally:
        sys.stderr = old
    return best, n, r


def write_replay(prop, mname, seed, tier, run_index, res, target, minimised, n_min_exec, original_len):
    REPLAY_DIR.mkdir(parents=True, exist_ok=True)
    path = REPLAY_DIR / f"{prop}-{mname}-{seed}-{run_index}.json"
    tape = list(res["tape"])
    while tape and tape[-1] == 0:  # an exhausted tape reads as zeros: trailing zeros carry no information
        tape.pop()
    res = {**res, "tape": tape}
    data = {
        "property": prop,
        "machine": mname,
        "seed": seed,
        "tier": tier,
        "run_index": run_index,
        "violation": target,
        "all_violations": res["violations"],
        "tape": res["tape"],
        "tape_described": res.get("tape_desc", [])[:300],
        "decoded_run": res.get("sample"),
        "digest": res["digest"],
        "minimised": minimised,
        "minimiser_executions": n_min_exec,
        "original_tape_length": original_len,
    }
    path.write_text(json.dumps(data, indent=1, default=str))
    return path


def replay_file(path: str) -> int:
    _quiet()
    data = json.loads(Path(path).read_text())
    mod = machine_module(data["machine"])
    if not os.environ.get("VERIF_DEBUG"):
        sys.stderr = open(os.devnull, "w")
    r = execute_run(mod, data["seed"], -1, data["tier"], values=data["tape"], keep_tape=True)
    sys.stderr = sys.__stderr__
    target = data["violation"]
    print(f"replay machine={data['machine']} digest={r['digest']} recorded_digest={data['digest']}")
    if r["status"] == "harness_error":
        print("HARNESS-ERROR during replay:\n" + (r["error"] or ""))
        return 2
    for v in r["violations"]:
        print(f"  violation clause={v['clause']} signature={v['signature']}\n    {v['msg'][:600]}")
    if r.get("sample") is not None:
        print("decoded run:", json.dumps(r["sample"], default=str)[:3000])
    if _same_class(r, target):
        same_digest = r["digest"] == data["digest"]
        print(f"REPRODUCED clause={target['clause']} digest_equal={same_digest}")
        findings = load_known_findings()
        if match_known(target, findings):
            print(f"KNOWN-FINDING: property={data['property']} {target['clause']} {target['signature']}")
            return 0
        print(f"VIOLATION property={data['property']} replay={path}")
        return 1
    print("NOT REPRODUCED")
    return 0


# --------------------------------------------------------------------------------
# a whole check
# --------------------------------------------------------------------------------
def cleanup_orphans():
    """Remove scratch directories left behind by worker processes that were killed."""
    from .core import _scratch_root

    root = Path(_scratch_root())
    for d in list(root.glob("dsim-*")):
        try:
            pid = int(d.name.split("-")[1])
            os.kill(pid, 0)
        except (ValueError, IndexError):
            continue
        except ProcessLookupError:
            import shutil

            shutil.rmtree(d, ignore_errors=True)
        except PermissionError:
            continue


def n_workers() -> int:
    return int(os.environ.get("VERIF_WORKERS", "0")) or min(16, os.cpu_count() or 1)


def run_check(prop: str, machines: list[str], tier: str, seed: int, out=sys.stdout, runs_override=None, want_digests=False):
    t0 = time.time()
    cleanup_orphans()
    mods = [machine_module(m) for m in machines]
    findings = load_known_findings()
    workers = n_workers()
    ctx_mp = multiprocessing.get_context("fork")
    per_machine = {}
    harness_errors = []
    broken = None
    wall_cap = float(os.environ.get("VERIF_WALL_CAP", "0")) or {"quick": 240.0, "thorough": 3000.0}[tier]
    jobs = []
    for mod in mods:
        n_runs = (runs_override or {}).get(mod.NAME) or mod.RUNS[tier]
        chunk = max(1, min(getattr(mod, "CHUNK", 64), -(-n_runs // (workers * 3))))
        # determinism mini self-test: the first indices are executed a second time, in
        # another worker with another history, and the digests must agree
        n_det = min(getattr(mod, "DETERMINISM_RERUNS", 8), n_runs)
        per_machine[mod.NAME] = {
            "planned": n_runs, "n": 0, "fired": Counter(), "probes": Counter(), "cases": set(),
            "samples": [], "violations": [], "inconclusive": 0, "sim_time": 0.0, "steps": 0,
            "digests": {}, "digests2": {}, "t_first": None, "t_last": None, "collected": {},
        }
        idx = list(range(n_runs))
        chunks = [idx[i : i + chunk] for i in range(0, n_runs, chunk)]
        for k, c in enumerate(chunks):
            jobs.append((mod.NAME, c, want_digests or (c[0] < n_det), False))
        if n_det:
            jobs.append((mod.NAME, list(range(n_det))[::-1], True, True))
    # interleave machines so that a wall cap cuts all of them proportionally
    jobs.sort(key=lambda j: (j[3], j[1][0] / max(1, per_machine[j[0]]["planned"])))
    skipped = 0
    with ProcessPoolExecutor(max_workers=workers, mp_context=ctx_mp) as pool:
        # last line of defence: a batch that is still running long after its wall cap is killed and reported
        # as a harness error (exit 2) instead of hanging
        import threading

        def _kill_pool():
            print("HARNESS-ERROR batch exceeded its hard deadline; killing the workers", file=sys.stderr)
            for proc in list(getattr(pool, "_processes", {}).values()):
                try:
                    proc.kill()
                except Exception:  # noqa: BLE001
                    pass

        killer = threading.Timer(wall_cap + 900.0, _kill_pool)
        killer.daemon = True
        killer.start()
        futs = {}
        it = iter(jobs)
        pending = set()

        def submit_next():
            nonlocal skipped
            for job in it:
                if time.time() - t0 > wall_cap and not job[3]:
                    skipped += len(job[1])
                    continue
                f = pool.submit(_worker_chunk, job[0], seed, tier, job[1], job[2])
                futs[f] = job
                pending.add(f)
                return True
            return False

        for _ in range(workers * 2):
            if not submit_next():
                break
        try:
            while pending:
                done = next(as_completed(pending))
                pending.discard(done)
                job = futs.pop(done)
                agg = done.result()
                pm = per_machine[job[0]]
                if job[3]:
                    pm["digests2"].update(agg["digests"])
                else:
                    pm["n"] += agg["n"]
                    pm["fired"].update(agg["fired"])
                    pm["probes"].update(agg["probes"])
                    pm["cases"] |= agg["cases"]
                    if len(pm["samples"]) < 3:
                        pm["samples"].extend(agg["samples"][: 3 - len(pm["samples"])])
                    pm["violations"].extend(agg["violations"])
                    pm["inconclusive"] += agg["inconclusive"]
                    pm["sim_time"] += agg["sim_time"]
                    pm["steps"] += agg["steps"]
                    for k, v in agg["collected"].items():
                        pm["collected"].setdefault(k, set()).update(v)
                    pm["digests"].update(agg["digests"])
                harness_errors.extend((job[0], i, e) for i, e in agg["harness_errors"])
                submit_next()
        except BrokenProcessPool as exc:
            broken = f"worker process died (watchdog or crash): {exc}"
        finally:
            killer.cancel()
    wall_runs = time.time() - t0
    cleanup_orphans()

    # determinism mini self-test
    nondeterministic = []
    for name, pm in per_machine.items():
        for i, d in pm["digests2"].items():
            if i in pm["digests"] and pm["digests"][i] != d:  # (both executions conclusive)
                nondeterministic.append((name, i))

    # classify violations
    new_violations = []  # (machine, run record, violation dict)
    known_hits = Counter()
    known_desc = {}
    other_props = Counter()
    for name, pm in per_machine.items():
        for rec in sorted(pm["violations"], key=lambda r: r["run"]):
            for v in rec["violations"]:
                if v["property"] != prop:
                    # oracles of another property ride along in this machine; that property's own
                    # check (same machine, its own workload mix) is the one that reports them
                    other_props[v["property"]] += 1
                    continue
                e = match_known(v, findings)
                if e is not None:
                    known_hits[e["id"]] += 1
                    known_desc[e["id"]] = e
                else:
                    new_violations.append((name, rec, v))

    # minimise + write replay for each distinct new violation class (first occurrence)
    replay_lines = []
    seen_classes = set()
    for name, rec, v in new_violations:
        key = (name, v["clause"], v["signature"])
        if key in seen_classes or len(seen_classes) >= 4:
            continue
        seen_classes.add(key)
        target = v
        minimised = False
        n_exec = 0
        res = None
        if not os.environ.get("VERIF_NO_MINIMISE"):
            try:
                with ProcessPoolExecutor(max_workers=1, mp_context=ctx_mp) as p1:
                    best, n_exec, res = p1.submit(
                        _minimise_job, name, seed, tier, rec["tape"], rec["frames"], target
                    ).result(timeout=900)
                minimised = _same_class(res, target)
            except Exception as exc:  # noqa: BLE001
                print(f"harness: minimisation failed: {exc!r}", file=sys.stderr)
                res = None
        if res is None or not minimised:
            res = {"violations": rec["violations"], "tape": rec["tape"], "digest": rec["digest"], "sample": rec["sample"], "tape_desc": []}
            minimised = False
        path = write_replay(prop, name, seed, tier, rec["run"], res, target, minimised, n_exec, len(rec["tape"]))
        # fresh-interpreter confirmation
        reproduced = None
        try:
            cp = subprocess.run(
                [sys.executable, str(VERIF / "check"), prop, "--replay", str(path)],
                capture_output=True, text=True, timeout=600,
                env={**os.environ, "VERIF_CHILD_REPLAY": "1"},
            )
            reproduced = "REPRODUCED" in cp.stdout and "NOT REPRODUCED" not in cp.stdout
        except Exception as exc:  # noqa: BLE001
            print(f"harness: replay confirmation failed: {exc!r}", file=sys.stderr)
        if reproduced is False and minimised:
            # a forgotten source of nondeterminism: fall back to the unminimised tape
            res = {"violations": rec["violations"], "tape": rec["tape"], "digest": rec["digest"], "sample": rec["sample"], "tape_desc": []}
            path = write_replay(prop, name, seed, tier, rec["run"], res, target, False, n_exec, len(rec["tape"]))
            print(f"harness: minimised replay of {path.name} did not reproduce in a fresh interpreter; unminimised tape written", file=sys.stderr)
        n_min = len(res["tape"])
        while n_min and res["tape"][n_min - 1] == 0:
            n_min -= 1
        replay_lines.append((v, path, reproduced, n_min, len(rec["tape"])))

    # evidence
    total_runs = sum(pm["n"] for pm in per_machine.values())
    distinct = sum(len(pm["cases"]) for pm in per_machine.values())
    fired = Counter()
    probes = Counter()
    samples = []
    machines_ev = {}
    real, stub = [], []
    rules = []
    assumptions = []
    for mod in mods:
        pm = per_machine[mod.NAME]
        fired.update(pm["fired"])
        probes.update(pm["probes"])
        for s in pm["samples"]:
            samples.append({"machine": mod.NAME, **s})
        machines_ev[mod.NAME] = {
            "runs": pm["n"],
            "planned": pm["planned"],
            "distinct_nontrivial": len(pm["cases"]),
            "fired_faults": dict(sorted(pm["fired"].items())),
            "reach_probes": dict(sorted(pm["probes"].items())),
            "inconclusive": pm["inconclusive"],
            "scheduling_steps": pm["steps"],
            "simulated_seconds": round(pm["sim_time"], 3),
            "violating_runs": len(pm["violations"]),
        }
        for c in getattr(mod, "COMPONENTS_REAL", []):
            if c not in real:
                real.append(c)
        for c in getattr(mod, "COMPONENTS_STUB", []):
            if c not in stub:
                stub.append(c)
        rules.append(f"[{mod.NAME}] {mod.RULE}")
        for a in getattr(mod, "ASSUMPTIONS", []):
            if a not in assumptions:
                assumptions.append(a)
    wall = time.time() - t0
    ev = {
        "property_id": prop,
        "tier": tier,
        "seed": seed,
        "level": LEVELS.get(prop, "exploration"),
        "coverage": {
            "evaluations": total_runs,
            "distinct_nontrivial": distinct,
            "rule": " || ".join(rules),
            "samples": samples[:6] or [{"note": "no sample recorded"}],
            "runs_per_hour": int(total_runs / max(wall_runs, 1e-6) * 3600),
            "seeds_per_hour": int(total_runs / max(wall_runs, 1e-6) * 3600),
            "simulated_seconds_covered": round(sum(pm["sim_time"] for pm in per_machine.values()), 3),
            "scheduling_steps": sum(pm["steps"] for pm in per_machine.values()),
            "fired_faults": dict(sorted(fired.items())),
            "reach_probes": dict(sorted(probes.items())),
            "machines": machines_ev,
            "components_real_code": real,
            "components_stubbed": stub,
            "inconclusive_runs": sum(pm["inconclusive"] for pm in per_machine.values()),
            "harness_errors": len(harness_errors) + (1 if broken else 0),
            "runs_skipped_by_wall_cap": skipped,
            "determinism_selftest": {
                "reruns_compared": sum(len(pm["digests2"]) for pm in per_machine.values()),
                "digest_mismatches": len(nondeterministic),
            },
            "known_findings_hit": {k: known_hits[k] for k in sorted(known_hits)},
            "violations_attributed_to_other_properties": dict(other_props),
            "workers": workers,
            "exhaustive": False,
        },
        "assumptions": assumptions,
        "wall_s": round(wall, 2),
        "violations": len(new_violations),
    }
    for mod in mods:
        extra = getattr(mod, "evidence_extra", None)
        if extra:
            try:
                ev["coverage"].update(extra(per_machine[mod.NAME]))
            except Exception:  # noqa: BLE001
                pass
    EVIDENCE_DIR.mkdir(parents=True, exist_ok=True)
    (EVIDENCE_DIR / f"{prop}.json").write_text(json.dumps(ev, indent=1, default=str))

    # report
    print(
        f"{prop} tier={tier} seed={seed} runs={total_runs} distinct={distinct} wall={wall:.1f}s "
        f"fired={dict(fired)} inconclusive={ev['coverage']['inconclusive_runs']}",
        file=out,
    )
    for k in sorted(known_hits):
        e = known_desc[k]
        print(f"KNOWN-FINDING: property={prop} {e['id']} ({known_hits[k]} hits) {e['what']}", file=out)
    for v, path, reproduced, lmin, lorig in replay_lines:
        print(f"  violation clause={v['clause']} signature={v['signature']} tape {lorig}->{lmin} fresh-replay={reproduced}", file=out)
        print(f"    {v['msg'][:800]}", file=out)
        print(f"VIOLATION property={prop} replay={path}", file=out)
    rc = 0
    if replay_lines:
        rc = 1
    if harness_errors or broken or nondeterministic:
        for m, i, e in harness_errors[:3]:
            print(f"HARNESS-ERROR machine={m} run={i}\n{e}", file=sys.stderr)
        if broken:
            print(f"HARNESS-ERROR {broken}", file=sys.stderr)
        for m, i in nondeterministic[:5]:
            print(f"HARNESS-ERROR nondeterministic run machine={m} run={i}", file=sys.stderr)
        if rc == 0:
            rc = 2
    out.flush()
    return rc
