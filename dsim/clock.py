"""Simulated clock: the only clock the code under test reads."""

from __future__ import annotations


class SimClock:
    def __init__(self, epoch: float = 1_000_000.0):
        self.epoch = epoch
        self.now = epoch
        self.covered = 0.0
        self.reads = 0

    def time(self) -> float:
        self.reads += 1
        return self.now

    # aliases for the other clock functions gemseo imports by name
    perf_counter = time
    default_timer = time
    monotonic = time

    def advance(self, d: float):
        self.now += d
        self.covered += abs(d)

    def sleep(self, d: float):
        self.advance(d)
