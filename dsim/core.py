"""Run context shared by all machines: event log, fault/probe counters, verdicts."""

from __future__ import annotations

import hashlib
import os
import shutil
import tempfile
from collections import Counter
from dataclasses import dataclass, field
from pathlib import Path


class Inconclusive(Exception):
    """The run hit a harness bound (step cap...). Never a VIOLATION."""


class StopRun(Exception):
    """Raised by ``Ctx.violate(fatal=True)`` to end the run at the first fatal violation."""


@dataclass
class Violation:
    prop: str
    clause: str  # oracle name, e.g. "C13.positional"
    signature: str  # call site / input signature used to match known findings
    msg: str

    def as_dict(self):
        return {
            "property": self.prop,
            "clause": self.clause,
            "signature": self.signature,
            "msg": self.msg[:2000],
        }


def _scratch_root() -> str:
    for cand in ("/dev/shm", os.environ.get("TMPDIR", ""), "/tmp"):
        if cand and os.path.isdir(cand) and os.access(cand, os.W_OK):
            return cand
    return tempfile.gettempdir()


class Ctx:
    """Everything a machine reports about one run."""

    def __init__(self, tape, tier: str = "quick", machine: str = "", run_index: int = -1):
        self.tape = tape
        self.tier = tier
        self.machine = machine
        self.run_index = run_index
        self.events: list = []
        self.fired: Counter = Counter()
        self.probes: Counter = Counter()
        self.violations: list[Violation] = []
        self.case_key = None
        self.nontrivial = False
        self.sample = None
        self.sim_time = 0.0
        self.steps = 0
        self._scratch: Path | None = None
        self.prop_default = ""
        self.collected: dict = {}  # name -> set of hashable items, merged over all runs by the runner

    # -- reporting -----------------------------------------------------------
    def event(self, *item):
        self.events.append(item)

    def fire(self, kind: str, n: int = 1):
        self.fired[kind] += n

    def probe(self, name: str, n: int = 1):
        self.probes[name] += n

    def violate(self, clause: str, signature: str, msg: str, fatal: bool = True, prop: str | None = None):
        prop = prop or clause.split(".")[0]
        self.violations.append(Violation(prop, clause, signature, msg))
        self.events.append(("VIOLATION", clause, signature))
        if fatal:
            raise StopRun(clause)

    def collect(self, name: str, item):
        self.collected.setdefault(name, set()).add(item)

    def case(self, key, nontrivial: bool = True):
        self.case_key = key
        self.nontrivial = nontrivial

    # -- scratch ---------------------------------------------------------------
    @property
    def scratch(self) -> Path:
        if self._scratch is None:
            self._scratch = Path(
                tempfile.mkdtemp(prefix=f"dsim-{os.getpid()}-", dir=_scratch_root())
            )
        return self._scratch

    def cleanup(self):
        if self._scratch is not None:
            shutil.rmtree(self._scratch, ignore_errors=True)
            self._scratch = None

    # -- digest ------------------------------------------------------------------
    def digest(self) -> str:
        h = hashlib.sha256()
        for ev in self.events:
            h.update(repr(ev).encode())
            h.update(b"\n")
        return h.hexdigest()[:24]


def canon(v):
    """Canonical, hash-seed independent, printable form of numeric data for event logs."""
    import numpy as np

    if v is None or isinstance(v, (str, bool, int)):
        return v
    if isinstance(v, float):
        return repr(v)
    if isinstance(v, complex):
        return repr(v)
    if isinstance(v, np.generic):
        return canon(v.item())
    if isinstance(v, np.ndarray):
        return ("nd", v.shape, str(v.dtype), tuple(canon(x) for x in v.ravel().tolist()))
    if isinstance(v, dict):
        return tuple((str(k), canon(x)) for k, x in sorted(v.items(), key=lambda kv: str(kv[0])))
    if isinstance(v, (list, tuple)):
        return tuple(canon(x) for x in v)
    if isinstance(v, (set, frozenset)):
        return tuple(sorted((canon(x) for x in v), key=repr))
    if hasattr(v, "toarray"):  # sparse
        return ("sp", canon(v.toarray()))
    if isinstance(v, BaseException):
        return ("exc", type(v).__name__, str(v)[:200])
    return ("obj", type(v).__name__)
