"""Process back-end: real fork, simulated order.

The OS really forks gemseo's workers; only the order is simulated.  In a child,
``GatedTaskCallables`` parks before and after the real task body; in the parent, the
``get()`` of the result queue drives the schedule: it waits until every busy worker is
parked, lets the tape choose between starting one parked body (one body at a time) and
completing one finished task, and returns as soon as exactly one completion has been
released - whose result is then the only item the real queue can deliver.
"""

from __future__ import annotations

import multiprocessing as mp
import os
import signal
from contextlib import contextmanager

from .seams import rebind

CTX = mp.get_context("fork")
CPE = "gemseo.core.parallel_execution.callable_parallel_execution"

ENGINE = None  # inherited by the forked children


class ChildLost(Exception):
    """A gated child did not reach its gate in time (harness error, not a violation)."""


class _Gates:
    def __init__(self, n_tasks):
        self.n_tasks = n_tasks
        self.start = [CTX.Semaphore(0) for _ in range(n_tasks)]
        self.finish = [CTX.Semaphore(0) for _ in range(n_tasks)]
        self.r, self.w = CTX.Pipe(duplex=False)
        self.wlock = CTX.Lock()

    def announce(self, item):
        with self.wlock:
            self.w.send(item)


class ProcEngine:
    def __init__(self, ctx, child_timeout=60.0):
        self.ctx = ctx
        self.tape = ctx.tape
        self.child_timeout = child_timeout
        self.gates: _Gates | None = None
        self.n_forks = 0
        self.n_executes = 0
        self.history = []  # per execute: list of actions
        self.child_info = []  # info sent by bodies, in schedule order
        self._reset()

    def _reset(self):
        self.at_start = set()
        self.at_finish = set()
        self.completed = 0
        self.released = 0
        self.n_forks = 0
        self.draining = False
        self.actions = []

    # -- called through the manager shim, in the parent, before the forks ------------
    def new_execute(self, n_tasks):
        self._reset()
        self.gates = _Gates(n_tasks)
        self.n_executes += 1
        self.history.append(self.actions)

    # -- parent side scheduling -----------------------------------------------------
    def _expected_parked(self):
        g = self.gates
        return min(self.n_forks, g.n_tasks - self.completed)

    def _wait_quiescent(self):
        g = self.gates
        while len(self.at_start) + len(self.at_finish) < self._expected_parked():
            if not g.r.poll(self.child_timeout):
                raise ChildLost(
                    f"parked={sorted(self.at_start)}/{sorted(self.at_finish)} expected={self._expected_parked()}"
                )
            i, kind, info = g.r.recv()
            if kind == "s":
                self.at_start.add(i)
            else:
                self.at_finish.add(i)
                self.child_info.append((i, info))

    def _run_body(self, i):
        g = self.gates
        self.at_start.discard(i)
        g.start[i].release()
        # the body runs alone; wait for it to park at its finish gate
        while i not in self.at_finish:
            if not g.r.poll(self.child_timeout):
                raise ChildLost(f"body of task {i} did not finish")
            j, kind, info = g.r.recv()
            if kind == "s":
                self.at_start.add(j)
            else:
                self.at_finish.add(j)
                self.child_info.append((j, info))

    def next_completion(self):
        """Drive the schedule until exactly one completion has been released."""
        g = self.gates
        while True:
            self._wait_quiescent()
            acts = [("start", i) for i in sorted(self.at_start)] + [
                ("complete", i) for i in sorted(self.at_finish)
            ]
            if not acts:
                raise ChildLost("no enabled action while a result is awaited")
            if self.draining or len(acts) == 1:
                act = acts[0]
            else:
                act = acts[self.tape.choice(len(acts), "proc")]
            self.actions.append(act)
            self.ctx.events.append(("p", act[0], act[1]))
            self.ctx.steps += 1
            if act[0] == "start":
                self._run_body(act[1])
            else:
                self.at_finish.discard(act[1])
                self.completed += 1
                g.finish[act[1]].release()
                return act[1]

    def drain(self):
        """Called when the real execute starts terminating its workers."""
        if self.gates is None:
            return
        self.draining = True
        while self.completed < self.gates.n_tasks and self.n_forks:
            self.next_completion()
            self.ctx.probe("drained_after_stop")

    # -- child side -------------------------------------------------------------------
    def child_enter(self, i):
        signal.alarm(int(self.child_timeout * 3))  # a lost child kills itself
        g = self.gates
        g.announce((i, "s", None))
        g.start[i].acquire()

    def child_leave(self, i, info=None):
        g = self.gates
        g.announce((i, "f", info))
        g.finish[i].acquire()
        signal.alarm(0)


CHILD_INFO = []  # bodies may append picklable info; shipped with the "finished" announcement


def _make_gated_task_callables():
    import gemseo.core.parallel_execution.callable_parallel_execution as cpe

    class GatedTaskCallables(cpe_TaskCallables):
        def __call__(self, task_index, input_):
            eng = ENGINE
            eng.child_enter(task_index)
            del CHILD_INFO[:]
            try:
                return super().__call__(task_index, input_)
            finally:
                eng.child_leave(task_index, list(CHILD_INFO))

    return GatedTaskCallables


cpe_TaskCallables = None


class _QueueOut:
    def __init__(self, real, eng):
        self._real, self._eng = real, eng

    def put(self, x):
        return self._real.put(x)

    def get(self):
        self._eng.next_completion()
        return self._real.get()


class _QueueIn:
    def __init__(self, real, eng):
        self._real, self._eng = real, eng

    def put(self, x):
        if x is None and not self._eng.draining:
            self._eng.drain()
            self._eng.draining = True
        return self._real.put(x)

    def get(self):
        return self._real.get()

    def task_done(self):
        return self._real.task_done()


class _ManagerShim:
    def __init__(self, real, eng):
        self._m, self._eng = real, eng
        self._n = 0

    def Queue(self):  # noqa: N802
        self._n += 1
        q = self._m.Queue()
        return _QueueIn(q, self._eng) if self._n % 2 == 1 else _QueueOut(q, self._eng)

    def list(self, x):
        self._eng.new_execute(len(x))
        return self._m.list(x)

    def __getattr__(self, name):
        return getattr(self._m, name)


class _CtxShim:
    def __init__(self, eng):
        self._eng = eng

    def Process(self, *a, **k):  # noqa: N802
        self._eng.n_forks += 1
        return CTX.Process(*a, **k)


class _ProcTime:
    def __init__(self, ctx, clock):
        self._ctx, self._clock = ctx, clock

    def sleep(self, d):
        if self._clock is not None:
            self._clock.advance(d)
        self._ctx.fire("fork_pacing_delay")

    def time(self):
        return self._clock.time() if self._clock is not None else 0.0


@contextmanager
def process_simulation(ctx, clock=None, **kw):
    """Install the process seams for the duration of one run."""
    global ENGINE, cpe_TaskCallables
    import gemseo.core.parallel_execution.callable_parallel_execution as cpe
    from gemseo.utils.multiprocessing.manager import get_multi_processing_manager as real_mgr

    if cpe_TaskCallables is None:
        cpe_TaskCallables = cpe._TaskCallables
    eng = ProcEngine(ctx, **kw)
    ENGINE = eng
    shim = _ManagerShim(real_mgr(), eng)
    gated = _make_gated_task_callables()
    try:
        with rebind([
            (CPE, "get_multi_processing_manager", lambda: shim),
            (CPE, "_TaskCallables", gated),
            (CPE, "get_context", lambda method=None: _CtxShim(eng)),
            (CPE, "time", _ProcTime(ctx, clock)),
        ]):
            yield eng
    finally:
        ENGINE = None
