"""Rebinding of the module-level names through which nondeterminism enters gemseo.

No source hook in /repo: every seam is a module attribute that the harness rebinds for
the duration of one run and restores afterwards.
"""

from __future__ import annotations

import importlib
from contextlib import contextmanager

from . import sched as _sched

_LOCK_MODULES = (
    ("gemseo.caches.base_full_cache", ("RLock", "Value")),
    ("gemseo.caches.memory_full_cache", ("RLock",)),
    ("gemseo.caches._hdf5_file_singleton", ("RLock",)),
    ("gemseo.algos.doe.base_doe_library", ("RLock",)),
    ("gemseo.algos.problem_function", ("Value",)),
    ("gemseo.core.execution_statistics", ("Value",)),
)


class SimTimeModule:
    """Stands for the ``time`` module inside ``callable_parallel_execution``."""

    def __init__(self, scheduler, clock):
        self._s = scheduler
        self._c = clock

    def sleep(self, d):
        self._c.advance(d)
        self._s.ctx.fire("fork_pacing_delay")
        self._s.yield_("sleep")

    def time(self):
        return self._c.time()


@contextmanager
def rebind(pairs):
    """pairs: iterable of (module name, attribute, new value)."""
    saved = []
    try:
        for mname, attr, new in pairs:
            mod = importlib.import_module(mname)
            saved.append((mod, attr, getattr(mod, attr)))
            setattr(mod, attr, new)
        yield
    finally:
        for mod, attr, old in reversed(saved):
            setattr(mod, attr, old)


def thread_seam_pairs(scheduler, clock, with_locks=True):
    cpe = "gemseo.core.parallel_execution.callable_parallel_execution"
    pairs = [
        (cpe, "th", _sched._NS(Thread=_sched.SimThread)),
        (cpe, "queue", _sched._NS(Queue=_sched.SimQueue)),
        (cpe, "time", SimTimeModule(scheduler, clock)),
    ]
    if with_locks:
        for mname, attrs in _LOCK_MODULES:
            for a in attrs:
                pairs.append((mname, a, _sched.SimRLock if a == "RLock" else _sched.SimValue))
    return pairs


@contextmanager
def thread_simulation(ctx, clock, with_locks=True, **sched_kw):
    """Install a scheduler and the thread seams; always unwinds parked threads."""
    s = _sched.Scheduler(ctx, **sched_kw)
    with rebind(thread_seam_pairs(s, clock, with_locks)):
        s.install()
        try:
            yield s
        finally:
            leaked = s.shutdown()
            if leaked:
                ctx.probe("harness_leaked_threads", leaked)
