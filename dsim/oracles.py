"""Oracles re-implemented from the documentation, independent of the code under test."""

from __future__ import annotations

import math

import numpy as np


def _arr(v):
    return np.atleast_1d(np.asarray(v, dtype=float))


def db_entries(problem):
    return [(x.wrapped_array.copy(), dict(o)) for x, o in problem.database.items()]


def constraint_specs(problem):
    """[(name, 'ineq'|'eq')] in the standard form stored in the database (g <= 0, h == 0)."""
    out = []
    for c in problem.constraints:
        out.append((c.name, "eq" if str(c.f_type).endswith("eq") and not str(c.f_type).endswith("ineq") else "ineq"))
    return out


def satisfied(kind, value, tol_eq, tol_ineq):
    v = _arr(value)
    if kind == "eq":
        return bool(np.all(np.abs(v) <= tol_eq))
    return bool(np.all(v <= tol_ineq))


def feasible(outputs, cons, tol_eq, tol_ineq):
    """A point is feasible iff every constraint has a recorded value within the tolerance."""
    for name, kind in cons:
        v = outputs.get(name)
        if v is None or not satisfied(kind, v, tol_eq, tol_ineq):
            return False
    return True


def violation_measure(outputs, cons, tol_eq, tol_ineq, partial_ok=False):
    """||max(g-eps,0)||^2 + ||max(|h|-eps,0)||^2; None when a constraint value is missing."""
    total = 0.0
    for name, kind in cons:
        v = outputs.get(name)
        if v is None:
            if partial_ok:
                continue
            return None
        v = _arr(v)
        if np.isnan(v).any():
            return math.inf
        if kind == "eq":
            e = np.maximum(np.abs(v) - tol_eq, 0.0)
        else:
            e = np.maximum(v - tol_ineq, 0.0)
        total += float(e @ e)
    return total


def scalar(v):
    a = np.asarray(v, dtype=float)
    if a.size == 1:
        return float(a.reshape(-1)[0])
    return float(np.linalg.norm(a))


def same_value(a, b):
    if a is None or b is None:
        return a is None and b is None
    a, b = np.asarray(a, dtype=float), np.asarray(b, dtype=float)
    if hasattr(a, "toarray"):
        a = a.toarray()
    return a.shape == b.shape and bool(np.array_equal(a, b, equal_nan=True))


def _dense(v):
    return v.toarray() if hasattr(v, "toarray") else v


def check_reported_optimum(problem, x_opt, f_opt_std, is_feasible, c_opt=None, c_grad=None, optimum_index=None):
    """Return a list of (clause, signature, message) for the solution reported for ``problem``.

    ``f_opt_std`` is the reported objective in standardized (minimisation) form.
    """
    out = []
    entries = db_entries(problem)
    if not entries:
        return out
    cons = constraint_specs(problem)
    tol_eq = problem.tolerances.equality
    tol_ineq = problem.tolerances.inequality
    obj = problem.objective.name
    feas = [(i, x, o) for i, (x, o) in enumerate(entries) if feasible(o, cons, tol_eq, tol_ineq)]
    # locate the reported point
    idx = None
    if x_opt is not None:
        xo = np.atleast_1d(np.asarray(x_opt))
        for i, (x, o) in enumerate(entries):
            if x.shape == xo.shape and np.array_equal(x, xo):
                idx = i
                break
    if idx is None and x_opt is not None:
        # solvers that return their own solution (LP/MILP) may differ from the recorded key by round-off
        for i, (x, o) in enumerate(entries):
            if x.shape == xo.shape and np.allclose(x, xo, rtol=1e-9, atol=1e-12):
                idx = i
                break
    feas_with_obj = [(i, x, o) for i, x, o in feas if o.get(obj) is not None]
    kind = "feasible-exists" if feas else "only-infeasible"
    if idx is None:
        if feas and not feas_with_obj:
            detail = "feasible points exist but none has an objective value"
        elif feas_with_obj and all(math.isnan(scalar(o[obj])) for _, _, o in feas_with_obj):
            detail = "every feasible point has a NaN objective"
        else:
            detail = "general"
        out.append(("C04.reported_point_recorded", f"{kind}; {detail}",
                    f"the reported point {x_opt} is not a recorded point ({len(entries)} entries, {len(feas)} feasible)"))
        return out
    rep = entries[idx][1]
    if feas:
        if not is_feasible:
            out.append(("C04.feasibility_flag", kind, f"a feasible recorded point exists (entry {feas[0][0]}) but the reported point is flagged infeasible"))
        if not feasible(rep, cons, tol_eq, tol_ineq):
            out.append(("C04.reported_feasible", kind, f"feasible recorded points exist but the reported point (entry {idx}) is not feasible: {rep}"))
        if f_opt_std is not None and not math.isnan(scalar(f_opt_std)):
            for i, x, o in feas_with_obj:
                v = scalar(o[obj])
                if v < scalar(f_opt_std):
                    out.append(("C04.best_feasible", kind, f"feasible entry {i} has standardized objective {v} < reported {scalar(f_opt_std)} (entry {idx})"))
                    break
        elif feas_with_obj and any(not math.isnan(scalar(o[obj])) for _, _, o in feas_with_obj):
            out.append(("C04.best_feasible", kind + "; reported objective NaN or missing", f"reported objective {f_opt_std} while feasible points with a finite objective exist"))
    else:
        if is_feasible:
            out.append(("C04.feasibility_flag", kind, f"no recorded point is feasible but the reported point (entry {idx}) is flagged feasible"))
        m_rep = violation_measure(rep, cons, tol_eq, tol_ineq, partial_ok=True)
        for i, (x, o) in enumerate(entries):
            m = violation_measure(o, cons, tol_eq, tol_ineq)
            if m is None:
                continue  # a partially evaluated point is never the witness
            # (the measure is re-computed here with another summation order: differences in the last
            # bits are not a strict improvement)
            if m < m_rep * (1.0 - 1e-9) - 1e-300:
                out.append(("C04.least_infeasible", kind, f"entry {i} has violation measure {m} < {m_rep} of the reported entry {idx}"))
                break
    # values reported are those recorded for that very point
    if f_opt_std is not None or rep.get(obj) is not None:
        rv = rep.get(obj)
        if rv is None or f_opt_std is None or not (scalar(rv) == scalar(f_opt_std) or (math.isnan(scalar(rv)) and math.isnan(scalar(f_opt_std)))):
            out.append(("C04.reported_values", kind + "; objective", f"reported objective {f_opt_std} but entry {idx} records {rv}"))
    if c_opt is not None:
        for name, _ in cons:
            if not same_value(_dense(c_opt.get(name)) if c_opt.get(name) is not None else None, rep.get(name)):
                out.append(("C04.reported_values", kind + "; constraint", f"reported {name}={c_opt.get(name)} but entry {idx} records {rep.get(name)}"))
    if c_grad is not None:
        for name, _ in cons:
            g = c_grad.get(name)
            r = rep.get("@" + name)
            if not same_value(None if g is None else _dense(g), None if r is None else _dense(r)):
                out.append(("C04.reported_values", kind + "; constraint gradient", f"reported gradient of {name} differs from the one recorded at entry {idx}"))
    if optimum_index is not None and optimum_index != idx:
        out.append(("C04.reported_values", kind + "; optimum_index", f"optimum_index={optimum_index} but the reported point is entry {idx}"))
    return out


def check_result(problem, result):
    """Check an OptimizationResult against the database of its problem."""
    if result is None:
        return [("C04.result_exists", "no result", "no OptimizationResult")]
    if not len(problem.database):
        return []
    f = result.f_opt
    if f is not None and not problem.minimize_objective and not problem.use_standardized_objective:
        f = -f
    return check_reported_optimum(
        problem, result.x_opt, f, result.is_feasible, result.constraint_values, result.constraints_grad, result.optimum_index
    )


def check_history_optimum(problem):
    """Check ``problem.history.optimum`` (usable at any time, e.g. from a store listener)."""
    if not len(problem.database):
        return []
    sol = problem.history.optimum
    out = check_reported_optimum(problem, sol.design, sol.objective, sol.is_feasible, sol.constraints, sol.constraint_jacobian)
    return out + check_history_views(problem)


def check_history_views(problem):
    """``history.feasible_points`` and ``history.last_point`` against the recorded entries."""
    out = []
    entries = db_entries(problem)
    cons = constraint_specs(problem)
    tol_eq, tol_ineq = problem.tolerances.equality, problem.tolerances.inequality
    feas = [(x, o) for x, o in entries if feasible(o, cons, tol_eq, tol_ineq)]
    xs, outs = problem.history.feasible_points
    if len(xs) != len(feas) or any(not np.array_equal(np.asarray(a), b) for a, (b, _) in zip(xs, feas)):
        out.append(("C04.feasible_points", "history.feasible_points", f"feasible_points lists {[np.asarray(a).tolist() for a in xs]}, the feasible recorded points are {[b.tolist() for b, _ in feas]}"))
    else:
        for got, (x, o) in zip(outs, feas):
            if set(got) != set(o) or any(not same_value(_dense(got[k]), _dense(o[k])) for k in o):
                out.append(("C04.feasible_points", "history.feasible_points values", f"feasible_points reports {dict(got)} at {x.tolist()}, recorded {o}"))
                break
    last = problem.history.last_point
    x, o = entries[-1]
    if not np.array_equal(np.asarray(last.design), x):
        out.append(("C04.last_point", "history.last_point", f"last_point.design={last.design}, the last recorded point is {x}"))
    else:
        if last.is_feasible != feasible(o, cons, tol_eq, tol_ineq):
            out.append(("C04.last_point", "history.last_point feasibility", f"last_point.is_feasible={last.is_feasible} for the recorded values {o}"))
        obj = o.get(problem.objective.name)
        if not same_value(last.objective, obj):
            out.append(("C04.last_point", "history.last_point objective", f"last_point.objective={last.objective}, recorded {obj}"))
        for name, _ in cons:
            if not same_value(last.constraints.get(name), o.get(name)):
                out.append(("C04.last_point", "history.last_point constraints", f"last_point.constraints[{name}]={last.constraints.get(name)}, recorded {o.get(name)}"))
            g, r = last.constraint_jacobian.get(name), o.get("@" + name)
            if not same_value(None if g is None else _dense(g), None if r is None else _dense(r)):
                out.append(("C04.last_point", "history.last_point constraint gradient", f"gradient of {name} differs from the recorded one"))
    return out


def check_pareto(problem, f_optima, x_optima):
    """Return (clause, signature, message) items for a reported Pareto front of ``problem``'s recorded history.

    Only what the property states: every reported point is a recorded feasible point with the recorded
    objective vector, and no reported point is dominated by a feasible recorded one (g dominates f when
    g <= f component-wise and g < f for one component).
    """
    out = []
    entries = db_entries(problem)
    cons = constraint_specs(problem)
    tol_eq, tol_ineq = problem.tolerances.equality, problem.tolerances.inequality
    obj = problem.objective.name
    feas = []
    for i, (x, o) in enumerate(entries):
        v = o.get(obj)
        if v is not None and feasible(o, cons, tol_eq, tol_ineq):
            feas.append((i, x, _arr(v)))
    for f, x in zip(np.atleast_2d(f_optima), np.atleast_2d(x_optima)):
        match = [i for i, xe, fe in feas if np.array_equal(xe, x) and np.array_equal(fe, f, equal_nan=True)]
        if not match:
            out.append(("C04.pareto_point_recorded", "pareto", f"the reported Pareto point x={x} f={f} is not a feasible recorded point with that objective; feasible recorded: {[(i, xe.tolist(), fe.tolist()) for i, xe, fe in feas]}"))
            continue
        for i, xe, fe in feas:
            if np.isnan(fe).any():
                continue
            if np.all(fe <= f) and np.any(fe < f):
                out.append(("C04.pareto_dominated", "pareto", f"the reported Pareto point x={x} f={f} (entry {match[0]}) is dominated by the feasible recorded entry {i}: x={xe} f={fe}"))
                break
    return out
